"""C14 — Serial links: framing, integrity and command flow control (OPP, FAST, PKONE)."""
import ast
import os

from vlib import Suite, zlist, zlit, coqlist, blit, opt

ID = "C14"
READY = True
RULE = ("opp: streams of 1-9 segments (valid 7/11-byte reports for configured and unconfigured boards, EOM bytes, "
        "reports with 1-3 corrupted bytes, two-byte corruptions that keep the CRC valid (e2 = T^k(e1)), truncated reports, "
        "noise incl. address/command look-alikes and CRC-valid inventory/version/config replies, 10-EOM flushes, "
        "and the refutation-witness family) cut into random reads down to single bytes; non-trivial = at least one cut "
        "and at least one report delivered.  reader: FAST (CR) / PKONE ('E') streams of 1-8 messages incl. empty ones, "
        "bytes that can never be UTF-8, optional truncation, random reads; non-trivial = more than one read and a "
        "message decoded.  writer: 1-12 operations (queue plain / confirmed message, incoming message) against the real "
        "_socket_writer task on an asyncio loop; non-trivial = a confirmed message and > 2 operations.  fastsw: 2-10 "
        "SA: snapshots (incl. snapshots identical to an earlier one / to the baseline) interleaved with -L:/L: events for "
        "configured and unknown switch numbers, fed as bytes to the real FastNetNeuronCommunicator of a machine booted "
        "like test_Fast_Neuron (real FAST platform, real SwitchController); non-trivial = snapshot and event in one case.  "
        "fastbytes: the same reports as ONE byte stream with non-report messages and header-corrupted reports interleaved, "
        "truncated anywhere and cut into random reads; states after every read; non-trivial = > 1 read, snapshot and event.  "
        "route: 1-8 messages (every header / ignored message of every FAST processor, near misses, short and empty "
        "messages) through each of the nine real communicator classes with recording processors, the writer paused on a "
        "header (often one of the processor's ignored messages) before the reads, random reads; PKONE "
        "messages_in_flight/send_ready for random counters; non-trivial = > 1 read and a processor call.  flow: 2-12 "
        "operations (send_and_forget, send_with_confirmation, send_and_wait_for_response, "
        "send_and_wait_for_response_processed with timeouts 33..175/64 s and max_retries -1..3 as concurrent tasks, incoming "
        "messages: answers/confirmations of earlier commands - possibly twice -, ignored, unknown and short messages, i.e. "
        "confirmations and responses are lost, late or duplicated; clock advances of 1-5 s) followed by a closing phase that "
        "delivers the answers to all QUERIES repeatedly (lost confirmations stay lost), on mpf.tests.loop.TimeTravelLoop; "
        "histories in which two wait_for deadlines or a deadline and an operation coincide are not generated; "
        "non-trivial = a query, an incoming message and > 3 operations.  retry: "
        "send_and_wait_for_response_processed with lost / late / timely responses on the virtual-time loop (oracle only)")
TRUSTED_BASE = [
    "Coq 8.16.1 kernel (coqc); vm_compute for the finite sweeps over bytes (256 and 256x256 cases, lifted to "
    "universally quantified lemmas through forallb_forall: table = polynomial 0x07, injectivity, GF(2)-linearity of the "
    "table, no 8-bit burst equals a table image), for refutation witnesses and for evaluating the model in "
    "the correspondence run; no native_compute",
    "axioms: none (every Print Assumptions is 'Closed under the global context')",
    "translator harness/props/c14.py::translate (Python ast -> coq/C14/gen/Crc.v): CRC8_LOOKUP literal, the initial "
    "value and update shape of both CRC loops, READ_GEN2_INP_CMD / READ_MATRIX_INP / EOM_CMD; fail-closed",
    "hand-written models coq/C14/Model.v, Flow.v, Links.v, Route2.v tied to /repo by correspondence on every run: "
    "OPPSerialCommunicator._parse_msg + OppHardwarePlatform.process_received_message/read_gen2_inp_resp/read_matrix_inp_resp, "
    "FastSerialCommunicator.parse_incoming_raw_bytes/_dispatch_incoming_msg/_socket_writer/pause_sending/_resume_sending/"
    "send_and_forget/send_with_confirmation/send_and_wait_for_response/send_and_wait_for_response_processed/"
    "done_processing_msg_response, the message_processors keys and IGNORED_MESSAGES of the nine FAST communicator classes, "
    "PKONESerialCommunicator._parse_msg (messages and messages_in_flight/send_ready), all driven on real objects with mocked "
    "platform/machine; FastNetNeuronCommunicator._process_sa/update_switches_from_hw_data/_process_switch_open/_closed + "
    "SwitchController.process_switch_by_num/process_switch_obj on a machine booted by mpf.tests.test_Fast_Neuron.TestFastNeuron.setUp "
    "(its mock serial boards and tests/machine_files/fast/config/neuron.yaml are part of the rig)",
    "CPython bytes.decode() (model domain: a message decodes iff all bytes < 0x80; generators never emit 0xC2..0xF4), "
    "int(s, 16) / bytearray.fromhex on plain upper-case hex, asyncio Queue/Event/Task/wait_for scheduling (Event.set() "
    "releases all current waiters; Event.wait() on a set event does not suspend), mpf.tests.loop.TimeTravelLoop "
    "(flow and retry suites)",
    "independent Python reference pieces used by the oracles only: bitwise CRC-8 (poly 0x07), byte-at-a-time framing "
    "automaton, the expected FAST header tables (ROUTE_TABLE), a stream splitter for the FAST switch reports, and "
    "flow_ref: a simulation of the command channel as found, used ONLY to decide whether a failure of the property "
    "predicate is exactly what the recorded defects produce (known finding) or something else (VIOLATION)",
]
ASSUMPTIONS = [
    "serial transport, OS buffering and serial_asyncio are outside the model; reads are arbitrary splits of the byte stream",
    "OPP: the _initial handlers (used during _identify_connection) and readuntil-based start-up are not modelled; "
    "matrix cards start from an integer old_state (the code's initial [0, 0] list would raise TypeError on the first "
    "change report if the initial read-out had been lost)",
    "OPP switch state is observed as OPPInputCard.old_state and the process_switch_by_num calls; their effect on the "
    "SwitchController is a theorem about the fold of these calls (opp_switch_state_last_report), not an observation",
    "FAST command channel: one step of the model = one operation followed by running the loop until idle; time in 1/64 s; "
    "histories with coinciding deadlines are excluded (asyncio does not promise an order for equal deadlines); message "
    "processors are recorders that call done_processing_msg_response() or not as the real ones do ('XX:' and 'ID:' are "
    "the real base-class processors)",
    "FAST switch reports: SA: snapshots carry 14 bytes (all 112 switch numbers; a shorter snapshot raises KeyError in "
    "update_switches_from_hw_data for a configured switch beyond it) in plain upper-case hex with one comma; -L:/L: carry "
    "two hex digits; the event loop is not run between reports "
    "(switch state is updated synchronously; queued switch events are dropped so that the scripted mock board is not "
    "driven into games); Nano -N:/N: share the handlers: routed in suite `route`, decode proved for any command letter",
    "PKONE in-flight bookkeeping is driven with a read task present (without one send_ready is always set)",
]
LEVEL_TEXT = ("Machine-checked proof (Coq) over executable models of the three incremental decoders, of the whole FAST command "
              "channel (writer, confirmations, no_response_waiting gate, wait_for retry loop, done_waiting) and of the header "
              "tables of all FAST processors: the OPP loop refines a byte-at-a-time automaton for every split into reads, "
              "CRC-8 (table translated from the source, proved equal to polynomial 0x07 and GF(2)-linear) detects every "
              "single-byte change and every burst of up to 8 bits, two-byte corruption is characterised exactly; bad-CRC "
              "frames never change state, state and SwitchController view are the last valid report per board, from bytes, "
              "for every split and every cut (OPP and FAST); ten EOM bytes always resynchronise; FAST/PKONE delimiter "
              "framing, FAST routing and the PKONE in-flight counter are split independent; queue order is preserved for "
              "all histories; lost/duplicated/late confirmations provably change nothing that is written.  Parts of the "
              "property are refuted for the code as found (theorems with witnesses or for all parameters, reproduced on "
              "the code on every run as known findings): OPP can stay out of step for ever, a non-UTF-8 byte ends the "
              "FAST/PKONE reader, the FAST writer never waits for a confirmation, a lost response is never re-sent and "
              "a _processed command can be dropped unsent.")
LEVEL_NOTE = ("Trusted: Coq kernel + vm_compute, no axioms; translator for the CRC table; hand models validated by "
              "differential runs against the working tree on every check; real serial timing is outside the model.")
TECHNIQUE = ("Coq proof (refinement to a byte automaton, induction over streams and histories, invariants, erasure "
             "simulation for confirmations, finite sweeps lifted by forallb) over translated CRC table + hand-written "
             "models; differential correspondence by vm_compute; direct oracles")
DESIGN_REF = "DESIGN.md section 3, C14"


# ------------------------------------------------------------------------------------------------
# (T) translation of the CRC table, CRC loop constants and command bytes from opp_rs232_intf.py
CRC_UPDATE_SHAPE = ("Assign(targets=[Name(id='crc8_byte', ctx=Store())], value=Subscript(value=Attribute(value=Name("
                    "id='OppRs232Intf', ctx=Load()), attr='CRC8_LOOKUP', ctx=Load()), slice=BinOp(left=Name("
                    "id='crc8_byte', ctx=Load()), op=BitXor(), right=Name(id='ind_int', ctx=Load())), ctx=Load()))")


def _crc_loop_facts(fn, what):
    """fail closed unless the function is `crc = <int>; loop: crc = TABLE[crc ^ byte]`; returns the initial value"""
    init = None
    updates = 0
    for n in ast.walk(fn):
        if isinstance(n, ast.Assign) and len(n.targets) == 1 and isinstance(n.targets[0], ast.Name) \
                and n.targets[0].id == "crc8_byte":
            if isinstance(n.value, ast.Constant) and isinstance(n.value.value, int):
                if init is not None:
                    raise ValueError("translate:opp_rs232_intf.py:%s: two initialisations" % what)
                init = n.value.value
            elif ast.dump(n) == CRC_UPDATE_SHAPE:
                updates += 1
            else:
                raise ValueError("translate:opp_rs232_intf.py:%s: unsupported crc8_byte assignment" % what)
    if init is None or updates != 1:
        raise ValueError("translate:opp_rs232_intf.py:%s: loop shape changed" % what)
    return init


def translate(repo, gendir):
    p = os.path.join(repo, "mpf/platforms/opp/opp_rs232_intf.py")
    tree = ast.parse(open(p).read())
    cls = [n for n in tree.body if isinstance(n, ast.ClassDef) and n.name == "OppRs232Intf"]
    if len(cls) != 1:
        raise ValueError("translate:opp_rs232_intf.py:OppRs232Intf missing")
    table, consts, funcs = None, {}, {}
    for n in cls[0].body:
        if isinstance(n, ast.Assign) and len(n.targets) == 1 and isinstance(n.targets[0], ast.Name):
            name = n.targets[0].id
            if name == "CRC8_LOOKUP":
                if not isinstance(n.value, ast.List):
                    raise ValueError("translate:opp_rs232_intf.py:CRC8_LOOKUP not a list literal")
                table = []
                for e in n.value.elts:
                    if not (isinstance(e, ast.Constant) and type(e.value) is int):
                        raise ValueError("translate:opp_rs232_intf.py:CRC8_LOOKUP non-literal element")
                    table.append(e.value)
            elif isinstance(n.value, ast.Constant) and isinstance(n.value.value, bytes) and len(n.value.value) == 1:
                consts[name] = n.value.value[0]
        if isinstance(n, ast.FunctionDef):
            funcs[n.name] = n
    if table is None or len(table) != 256:
        raise ValueError("translate:opp_rs232_intf.py:CRC8_LOOKUP must have 256 entries")
    for f in ("calc_crc8_whole_msg", "calc_crc8_part_msg"):
        if f not in funcs:
            raise ValueError("translate:opp_rs232_intf.py:%s missing" % f)
    i1 = _crc_loop_facts(funcs["calc_crc8_whole_msg"], "calc_crc8_whole_msg")
    i2 = _crc_loop_facts(funcs["calc_crc8_part_msg"], "calc_crc8_part_msg")
    if i1 != i2:
        raise ValueError("translate:opp_rs232_intf.py: the two CRC loops start from different values")
    for c in ("READ_GEN2_INP_CMD", "READ_MATRIX_INP", "EOM_CMD"):
        if c not in consts:
            raise ValueError("translate:opp_rs232_intf.py:%s missing" % c)
    os.makedirs(gendir, exist_ok=True)
    txt = ("(* GENERATED on every run by harness/props/c14.py::translate from mpf/platforms/opp/opp_rs232_intf.py *)\n"
           "From Common Require Import Prelude.\nOpen Scope Z_scope.\n"
           "Definition crc_table : list Z := %s.\n"
           "Definition crc_init : Z := %d.\n"
           "Definition cmd_read_gen2_inp : Z := %d.\n"
           "Definition cmd_read_matrix_inp : Z := %d.\n"
           "Definition cmd_eom : Z := %d.\n" % (zlist(table), i1, consts["READ_GEN2_INP_CMD"],
                                                 consts["READ_MATRIX_INP"], consts["EOM_CMD"]))
    path = os.path.join(gendir, "Crc.v")
    if not os.path.exists(path) or open(path).read() != txt:      # keep the timestamp when nothing changed
        with open(path, "w") as f:
            f.write(txt)





# ================================================================================================
# independent reference pieces for the oracles (NOT the Coq model): bitwise CRC-8 poly 0x07 init 0xff
def crc8_ref(bs):
    c = 0xff
    for b in bs:
        c ^= b
        for _ in range(8):
            c = ((c << 1) ^ 0x07) & 0xff if c & 0x80 else (c << 1) & 0xff
    return c


def crc_tab_ref(c):
    """one table look-up = eight shifts of the polynomial division, initial value 0"""
    for _ in range(8):
        c = ((c << 1) ^ 0x07) & 0xff if c & 0x80 else (c << 1) & 0xff
    return c


def is_addr(b):
    return (b & 0xe0) == 0x20


def automaton_ref(stream):
    """byte-at-a-time framing (used only to classify a resynchronisation failure as the recorded one)"""
    st, acc, need, out = "idle", [], 0, []
    for b in stream:
        if st == "lost":
            if is_addr(b):
                st, acc = "addr", [b]
        elif st == "idle":
            if is_addr(b):
                st, acc = "addr", [b]
            elif b != 0xff:
                st = "lost"
        elif st == "addr":
            if b == 0x08:
                st, acc, need = "frame", acc + [b], 5
            elif b == 0x19:
                st, acc, need = "frame", acc + [b], 9
            else:
                st = "lost"
        else:
            acc = acc + [b]
            need -= 1
            if need == 0:
                out.append(acc)
                st = "idle"
    return out


INP_ADDRS = [0x20, 0x22]
MAT_ADDRS = [0x21, 0x22]
SPICE = [0x00, 0xff, 0x20, 0x21, 0x22, 0x08, 0x19, 0x3f, 0x40, 0xfe, 0xf0]


def mk_frame(rng, prev):
    kind = rng.choice(["g", "g", "g", "m"])
    if kind == "g":
        a = rng.choice([0x20, 0x20, 0x22, 0x22, 0x23, 0x3f])
        n = 4
    else:
        a = rng.choice([0x21, 0x21, 0x22, 0x20])
        n = 8
    key = (kind, a)
    r = rng.random()
    if key in prev and r < 0.45:
        data = list(prev[key])
        for _ in range(rng.choice([0, 1, 1, 2])):
            i = rng.randrange(n)
            data[i] ^= 1 << rng.randrange(8)
    elif r < 0.75:
        data = [rng.choice(SPICE) for _ in range(n)]
    else:
        data = [rng.randrange(256) for _ in range(n)]
    prev[key] = data
    body = [a, 0x08 if kind == "g" else 0x19] + data
    return body + [crc8_ref(body)]


def gen_opp(rng, tier, i):
    segs = []
    prev = {}
    if rng.random() < 0.06:
        # the family of the refutation witness: data bytes that look like an address/command pair
        a = rng.choice([0x20, 0x22])
        body = [a, 0x08, rng.choice([0x21, 0x20, 0x22]), 0x08, rng.randrange(256), rng.randrange(256)]
        f = body + [crc8_ref(body)]
        segs.append(["noise", [rng.choice([0x20, 0x21, 0x3f])]])
        for _ in range(rng.randint(3, 8)):
            segs.append(["valid", f])
            segs.append(["eom", [0xff]])
    else:
        for _ in range(rng.randint(1, 9)):
            r = rng.random()
            if r < 0.55:
                segs.append(["valid", mk_frame(rng, prev)])
                if rng.random() < 0.5:
                    segs.append(["eom", [0xff] * rng.choice([1, 1, 2])])
            elif r < 0.64:
                f = mk_frame(rng, dict(prev))
                for _ in range(rng.choice([1, 1, 1, 2, 3])):
                    k = rng.randrange(len(f))
                    f[k] = rng.choice([f[k] ^ (1 << rng.randrange(8)), rng.randrange(256), rng.choice(SPICE)])
                segs.append(["corrupt", f])
            elif r < 0.67:
                # two corrupted bytes that the CRC cannot see (theorem two_byte_corruption_exact: e2 = T^k(e1)), data
                # bytes or data + CRC byte: for the decoder this IS a valid report
                f = mk_frame(rng, prev)
                i = rng.randrange(2, len(f) - 1)
                j = rng.randrange(i + 1, len(f))
                e = rng.randrange(1, 256)
                f[i] ^= e
                for _ in range(j - i):
                    e = crc_tab_ref(e)
                f[j] ^= e
                prev[("g" if f[1] == 0x08 else "m", f[0])] = f[2:-1]
                segs.append(["valid", f])
            elif r < 0.75:
                f = mk_frame(rng, dict(prev))
                segs.append(["trunc", f[:rng.randrange(1, len(f))]])
            elif r < 0.84:
                segs.append(["noise", [rng.choice(SPICE + [rng.randrange(256)]) for _ in range(rng.choice([1, 1, 2, 3, 6, 12]))]])
            elif r < 0.87:
                # CRC-valid replies of the start-up exchange (inventory, firmware version, gen2 config, serial number)
                # arriving late: the running parser must treat them as junk and find the next report again
                a = rng.choice([0x20, 0x21, 0x22])
                body = rng.choice([[0xf0, 0x20, 0x21, 0x22, 0xff], [a, 0x02, 2, 3, 0, rng.randrange(256)],
                                   [a, 0x0d] + [rng.choice([0, 1, 2, 0x20]) for _ in range(16)],
                                   [a, 0x00, 0, 0, 0, rng.randrange(256)]])
                segs.append(["noise", body if body[0] == 0xf0 else body + [crc8_ref(body)]])
            else:
                segs.append(["flush", [0xff] * 10])
    stream = [b for _, s in segs for b in s]
    cuts = sorted(set(rng.randrange(len(stream) + 1) for _ in range(rng.choice([0, 1, 2, 4, 8, 30]))))
    if rng.random() < 0.12:
        cuts = list(range(1, len(stream)))
    init = {"inp": [[a, rng.choice([0xffffffff, 0, rng.getrandbits(32)])] for a in INP_ADDRS],
            "mat": [[a, rng.choice([0xffffffffffffffff, 0, rng.getrandbits(64)])] for a in MAT_ADDRS]}
    return {"segs": segs, "cuts": cuts, "init": init}


def chunks_of(case):
    stream = [b for _, s in case["segs"] for b in s]
    out, prev = [], 0
    for c in list(case["cuts"]) + [len(stream)]:
        if c > prev:
            out.append(stream[prev:c])
            prev = c
    return out


def _opp_run(chunks, init):
    import logging
    from collections import defaultdict
    from unittest.mock import MagicMock
    from mpf.platforms.opp.opp import OppHardwarePlatform
    from mpf.platforms.opp.opp_serial_communicator import OPPSerialCommunicator
    from mpf.platforms.opp.opp_switch import OPPInputCard, OPPMatrixCard
    p = OppHardwarePlatform.__new__(OppHardwarePlatform)
    p.machine = MagicMock()
    p.log = logging.getLogger("c14.opp")
    p.log.disabled = True
    events, frames = [], []

    def psn(state, num, platform, logical=False):
        _, card, idx = num.split("-")
        events.append([int(card) + 0x20, int(idx), int(state)])
    p.machine.switch_controller.process_switch_by_num = psn
    p.inp_dict, p.inp_addr_dict, p.matrix_inp_addr_dict = {}, {}, {}
    p.bad_crc = defaultdict(lambda: 0)
    p.opp_connection = {}
    p._poll_response_received = {"c": MagicMock()}
    p.opp_commands = {0xf0: p.inv_resp, 0xff: p.eom_resp, 0x0d: p.get_gen2_cfg_resp, 0x08: p.read_gen2_inp_resp,
                      0x02: p.vers_resp, 0x19: p.read_matrix_inp_resp}
    real = p.process_received_message

    class Plat:       # records what the framing layer hands over, then calls the real platform method
        def process_received_message(self, chain_serial, msg):
            frames.append(list(msg))
            real(chain_serial, msg)
    c = OPPSerialCommunicator.__new__(OPPSerialCommunicator)
    c.part_msg, c.chain_serial, c._lost_synch, c.platform = b"", "c", False, Plat()
    p.opp_connection["c"] = c
    cards_i, cards_m = {}, {}
    for a, v in init["inp"]:
        cards_i[a] = OPPInputCard("c", a, 0xffffffff, p.inp_dict, p.inp_addr_dict, p)
        cards_i[a].old_state = v
    for a, v in init["mat"]:
        cards_m[a] = OPPMatrixCard("c", a, p.inp_dict, p.matrix_inp_addr_dict, p)
        cards_m[a].old_state = v
    err = None
    try:
        for ch in chunks:
            c._parse_msg(bytes(ch))
    except Exception as e:      # noqa
        err = type(e).__name__
    return {"frames": frames, "events": events, "inp": [[a, cards_i[a].old_state] for a, _ in init["inp"]],
            "mat": [[a, cards_m[a].old_state] for a, _ in init["mat"]], "buf": list(c.part_msg),
            "lost": bool(c._lost_synch), "err": err}


def run_opp(case):
    ch = chunks_of(case)
    return {"split": _opp_run(ch, case["init"]), "whole": _opp_run([sum(ch, [])], case["init"])}


def coq_opp(case, out):
    o = out["split"]
    if o["err"]:
        return None
    amap = lambda kv: coqlist("(%s,%s)" % (zlit(k), zlit(v)) for k, v in kv)
    inp = "((%s, %s), %s)" % (amap(case["init"]["inp"]), amap(case["init"]["mat"]),
                              coqlist(zlist(c) for c in chunks_of(case)))
    exp = ("{| oo_frames := %s; oo_events := %s; oo_inp := %s; oo_mat := %s; oo_buf := %s; oo_lost := %s |}" %
           (coqlist(zlist(f) for f in o["frames"]),
            coqlist("(%s,%s,%s)" % (zlit(a), zlit(i), zlit(s)) for a, i, s in o["events"]),
            amap(o["inp"]), amap(o["mat"]), zlist(o["buf"]), blit(o["lost"])))
    return "(mk_oc %s %s)" % (inp, exp)


def expected_from_frames(frames, init):
    """the property's own predicate: state and events as determined by the CRC-valid delivered reports only"""
    inp = {a: v for a, v in init["inp"]}
    mat = {a: v for a, v in init["mat"]}
    events = []
    for f in frames:
        if len(f) == 7 and f[1] == 0x08 and crc8_ref(f[:6]) == f[6] and f[0] in inp:
            new = int.from_bytes(bytes(f[2:6]), "big")
            for i in range(32):
                if (inp[f[0]] ^ new) >> i & 1:
                    events.append([f[0], i, 0 if new >> i & 1 else 1])
            inp[f[0]] = new
        elif len(f) == 11 and f[1] == 0x19 and crc8_ref(f[:10]) == f[10] and f[0] in mat:
            new = int.from_bytes(bytes(f[2:10]), "big")
            for i in range(64):
                if (mat[f[0]] ^ new) >> i & 1:
                    events.append([f[0], 32 + i, 0 if new >> i & 1 else 1])
            mat[f[0]] = new
    return [[a, inp[a]] for a, _ in init["inp"]], [[a, mat[a]] for a, _ in init["mat"]], events


def contains_in_order(hay, needles):
    """needles appear in hay as a contiguous run"""
    if not needles:
        return True
    n = len(needles)
    return any(hay[i:i + n] == needles for i in range(len(hay) - n + 1))


def oracle_opp(case, out):
    fails = []
    a, b = out["split"], out["whole"]
    if a["err"] or b["err"]:
        fails.append({"sig": "opp-parser-exception", "what": "the OPP parser raised %s" % (a["err"] or b["err"])})
        return fails
    for k in ("frames", "events", "inp", "mat"):
        if a[k] != b[k]:
            fails.append({"sig": "opp-chunking-dependent", "what": "%s differ between split and unsplit delivery" % k})
            break
    inp, mat, events = expected_from_frames(a["frames"], case["init"])
    if inp != a["inp"] or mat != a["mat"] or events != a["events"]:
        fails.append({"sig": "opp-state-not-from-valid-reports",
                      "what": "switch state / switch events are not those determined by the CRC-valid reports delivered"})
    # resynchronisation
    segs = case["segs"]
    stream = [x for _, s in segs for x in s]
    i = 0
    while i < len(segs):
        kind = segs[i][0]
        if kind in ("flush", "noise", "corrupt", "trunc") or i == 0:
            j = i + 1 if kind in ("flush", "noise", "corrupt", "trunc") else 0
            run = []
            while j < len(segs) and segs[j][0] in ("valid", "eom"):
                if segs[j][0] == "valid":
                    run.append(segs[j][1])
                j += 1
            if kind == "flush" or (i == 0 and kind in ("valid", "eom")):
                if not contains_in_order(a["frames"], run):
                    fails.append({"sig": "opp-frame-lost-at-boundary",
                                  "what": "valid reports sent from a frame boundary / after an EOM flush were not all delivered"})
            elif kind != "flush" and len(run) > 2:
                if not contains_in_order(a["frames"], run[2:]):
                    if automaton_ref(stream) == a["frames"]:
                        fails.append({"sig": "opp-resync-header-lookalike",
                                      "what": "after line noise more than two following valid reports are lost: data bytes "
                                              "that look like an address/command pair keep the length framing out of step"})
                    else:
                        fails.append({"sig": "opp-resync-other", "what": "valid reports after noise are not decoded"})
            i = max(j, i + 1)
        else:
            i += 1
    return fails


def shrink_opp(case):
    segs = case["segs"]
    for i in range(len(segs)):
        yield {"segs": segs[:i] + segs[i + 1:], "cuts": [], "init": case["init"]}
    for i in range(len(segs)):
        yield {"segs": segs[:i] + segs[i + 1:], "cuts": case["cuts"], "init": case["init"]}
    cuts = case["cuts"]
    for i in range(len(cuts)):
        yield {"segs": segs, "cuts": cuts[:i] + cuts[i + 1:], "init": case["init"]}
    z = {"inp": [[a, 0] for a in INP_ADDRS], "mat": [[a, 0] for a in MAT_ADDRS]}
    if case["init"] != z:
        yield {"segs": segs, "cuts": cuts, "init": z}


def nontrivial_opp(case, out):
    return len(case["cuts"]) >= 1 and len(out["split"]["frames"]) >= 1


def describe_opp(case):
    kinds = sorted(set(k for k, _ in case["segs"]))
    n = len(case["cuts"])
    return "%s chunks=%s" % ("+".join(k[0] for k in kinds), "1" if n == 0 else "2-5" if n < 5 else ">5")


HDR_OPP = ("From C14 Require Import Crc Model.\nDefinition run := opp_run.\nDefinition out_eqb := opp_out_eqb.\n"
           "Definition mk_oc (i : (amap * amap) * list (list Z)) (o : opp_out) := (i, o).\n")


# ================================================================================================
# delimiter readers: FAST parse_incoming_raw_bytes (CR) and PKONE _parse_msg ('E')
INVALID_UTF8 = list(range(0x80, 0xc2)) + list(range(0xf5, 0x100))     # never part of valid UTF-8
FAST_MSGS = ["ID:NET FP-CPU-2000  2.06", "SA:0E,2900000000000000000000000000", "-L:0B", "/L:0B", "WD:P", "XX:F", "SL:P",
             "DL:P", "NN:00,FP-I/O-3208-2   ,01.00,08,20,04,06,00,00,00,00", "A", "", "", "!B:02", "CH:2000,FF"]
PKONE_MSGS = ["PCN", "PCB0XP11F10", "PSA011000000000000000000000000000000000000X", "PSW0315", "PWD", "", "PLB", "XX"]


def gen_reader(rng, tier, i):
    which = rng.choice(["fast", "fast", "pkone"])
    delim = 13 if which == "fast" else 69
    pool = FAST_MSGS if which == "fast" else PKONE_MSGS
    msgs = []
    stream = []
    for _ in range(rng.randint(1, 8)):
        r = rng.random()
        if r < 0.8:
            m = list(rng.choice(pool).encode())
            if which == "pkone":
                m = [b for b in m if b != 69]
        elif r < 0.9:
            m = [rng.randrange(1, 128) for _ in range(rng.randint(0, 5))]
            m = [b for b in m if b != delim]
        else:
            m = list(rng.choice(pool).encode())
            m = [b for b in m if b != delim]
            for _ in range(rng.choice([1, 1, 2])):
                m.insert(rng.randrange(len(m) + 1), rng.choice(INVALID_UTF8))
        msgs.append(m)
        stream += m + [delim]
    if rng.random() < 0.3:
        stream = stream[:rng.randrange(len(stream) + 1)]
    cuts = sorted(set(rng.randrange(len(stream) + 1) for _ in range(rng.choice([0, 1, 2, 4, 8, 30]))))
    if rng.random() < 0.12:
        cuts = list(range(1, len(stream)))
    chunks, prev = [], 0
    for c in cuts + [len(stream)]:
        if c > prev:
            chunks.append(stream[prev:c])
            prev = c
    return {"which": which, "chunks": chunks}


def _mk_fast(record):
    import logging
    from unittest.mock import MagicMock
    from mpf.platforms.fast.communicators.base import FastSerialCommunicator

    class Rec(FastSerialCommunicator):
        def _dispatch_incoming_msg(self, msg):
            record(msg)
            return super()._dispatch_incoming_msg(msg)
    platform = MagicMock()
    platform.machine.is_shutting_down = False
    platform.debug = False
    c = Rec(platform, "net", {"debug": False, "watchdog": None, "port": ["x"], "baud": 1})
    c.log = logging.getLogger("c14.fast")
    c.log.disabled = True
    c.port_debug = False
    c.ignore_decode_errors = False          # the value connect() leaves behind
    return c


def _reader_run(which, chunks):
    seen = []
    dead = None
    if which == "fast":
        c = _mk_fast(lambda m: seen.append(list(m.encode()) if isinstance(m, str) else list(m)))
        feed = c.parse_incoming_raw_bytes
    else:
        import logging
        from unittest.mock import MagicMock
        from mpf.platforms.pkone.pkone_serial_communicator import PKONESerialCommunicator
        c = PKONESerialCommunicator.__new__(PKONESerialCommunicator)
        c.received_msg = b""
        c.messages_in_flight = 0
        c.max_messages_in_flight = 10
        c.read_task = None
        c.send_ready = MagicMock()
        c.log = logging.getLogger("c14.pkone")
        c.log.disabled = True
        c.platform = MagicMock()
        c.platform.process_received_message = lambda m: seen.append(list(m.encode()))
        feed = c._parse_msg
    for ch in chunks:
        try:
            feed(bytes(ch))
        except UnicodeDecodeError:
            dead = "UnicodeDecodeError"      # propagates out of _socket_reader: the read task ends
            break
        except Exception as e:               # noqa
            dead = type(e).__name__
            break
    return {"msgs": seen, "dead": dead, "buf": list(c.received_msg)}


def run_reader(case):
    return {"split": _reader_run(case["which"], case["chunks"]),
            "whole": _reader_run(case["which"], [sum(case["chunks"], [])])}


def coq_reader(case, out):
    o = out["split"]
    if o["dead"] not in (None, "UnicodeDecodeError"):
        return None
    d = 13 if case["which"] == "fast" else 69
    dead = o["dead"] is not None
    ign = "[]" if case["which"] == "fast" else coqlist([zlist(b"PWD")])
    # mk_rc has typed arguments: an empty list is then typed even when every case of a (small) shard has one
    return "(mk_rc %d %s %s %s %s %s)" % (d, ign, coqlist(zlist(c) for c in case["chunks"]),
                                         coqlist(zlist(m) for m in o["msgs"]), blit(dead),
                                         zlist([] if dead else o["buf"]))


def oracle_reader(case, out):
    fails = []
    a, b = out["split"], out["whole"]
    if a["msgs"] != b["msgs"] or a["dead"] != b["dead"] or (a["dead"] is None and a["buf"] != b["buf"]):
        fails.append({"sig": "reader-chunking-dependent", "what": "decoded messages differ between split and unsplit delivery"})
    d = 13 if case["which"] == "fast" else 69
    stream = sum(case["chunks"], [])
    parts, cur = [], []
    for x in stream:
        if x == d:
            parts.append(cur)
            cur = []
        else:
            cur.append(x)
    complete = [m for m in parts if m and not (case["which"] == "pkone" and m == list(b"PWD"))]
    good = [m for m in complete if all(x < 128 for x in m)]
    if a["dead"] is None:
        if a["msgs"] != good or a["buf"] != cur:
            fails.append({"sig": "reader-wrong-messages", "what": "decoded messages are not the complete delimited messages of the stream"})
    else:
        # property: noise must not stop later valid messages from being decoded
        k = next(i for i, m in enumerate(complete) if not all(x < 128 for x in m))
        if a["dead"] == "UnicodeDecodeError" and a["msgs"] == complete[:k]:
            fails.append({"sig": "reader-dies-on-undecodable-byte",
                          "what": "a message containing a non-UTF-8 byte raises UnicodeDecodeError out of the %s read "
                                  "loop; the reader task ends and nothing received afterwards is decoded" % case["which"]})
        else:
            fails.append({"sig": "reader-died-other", "what": "reader raised %s" % a["dead"]})
    return fails


def shrink_reader(case):
    ch = case["chunks"]
    for i in range(len(ch)):
        yield {"which": case["which"], "chunks": ch[:i] + ch[i + 1:]}
    for i in range(len(ch) - 1):
        yield {"which": case["which"], "chunks": ch[:i] + [ch[i] + ch[i + 1]] + ch[i + 2:]}
    for i in range(len(ch)):
        if len(ch[i]) > 1:
            h = len(ch[i]) // 2
            yield {"which": case["which"], "chunks": ch[:i] + [ch[i][:h]] + ch[i + 1:]}
            yield {"which": case["which"], "chunks": ch[:i] + [ch[i][h:]] + ch[i + 1:]}


def nontrivial_reader(case, out):
    return len(case["chunks"]) > 1 and len(out["split"]["msgs"]) >= 1


def describe_reader(case):
    n = len(case["chunks"])
    return "%s chunks=%s" % (case["which"], "1" if n == 1 else "2-5" if n <= 5 else ">5")


HDR_READER = ("From C14 Require Import Crc Model.\nDefinition run := reader_run.\nDefinition out_eqb := reader_out_eqb.\n"
              "Definition mk_rc (d : Z) (ign chunks msgs : list (list Z)) (dead : bool) (buf : list Z) :=\n"
              "  (((d, ign), chunks), ((msgs, dead), buf)).\n")


# ================================================================================================
# FAST writer flow control
HEADERS = ["AA:", "AB:", "SA:", "DL:P", "WD:", "AA:P"]
RX_MSGS = ["AA:P", "AB:", "AB:00", "SA:01", "DL:P", "DL:F", "A", "XX:", "WD:P", "ZZ:1", "D", "AA"]


def gen_writer(rng, tier, i):
    ops = []
    m = 0
    for _ in range(rng.randint(1, 12)):
        r = rng.random()
        if r < 0.35:
            m += 1
            ops.append(["enq", m, None])
        elif r < 0.65:
            m += 1
            ops.append(["enq", m, rng.choice(HEADERS)])
        else:
            ops.append(["rx", rng.choice(RX_MSGS)])
    return {"ops": ops}


def run_writer(case):
    import asyncio
    writes = []
    c = _mk_fast(lambda m: None)

    class W:
        def write(self, msg):
            writes.append(bytes(msg))
    c.writer = W()
    loop = asyncio.new_event_loop()
    trace = []
    err = None
    try:
        task = loop.create_task(c._socket_writer())
        for op in case["ops"]:
            before = len(writes)
            if op[0] == "enq":
                if op[2] is None:
                    c.send_and_forget("M%d" % op[1])
                else:
                    c.send_with_confirmation("M%d" % op[1], op[2])
            else:
                c.parse_incoming_raw_bytes(op[1].encode() + b"\r")
            for _ in range(6):
                loop.run_until_complete(asyncio.sleep(0))
            new = [int(w[1:-1].decode()) for w in writes[before:]]
            trace.append([new, bool(c.pause_sending_flag.is_set())])
        if task.done() and task.exception():
            err = type(task.exception()).__name__
        task.cancel()
        try:
            loop.run_until_complete(task)
        except BaseException:   # noqa
            pass
    finally:
        loop.close()
    return {"trace": trace, "err": err, "left": c.send_queue.qsize()}


def coq_writer(case, out):
    if out["err"]:
        return None
    ops = coqlist("(Enq %d %s)" % (o[1], opt(o[2], lambda h: zlist(h.encode()))) if o[0] == "enq"
                  else "(Rx %s)" % zlist(o[1][:3].encode()) for o in case["ops"])
    exp = coqlist("(%s, %s)" % (zlist(n), blit(p)) for n, p in out["trace"])
    return "(mk_wc %s %s)" % (ops, exp)


def oracle_writer(case, out):
    fails = []
    if out["err"]:
        return [{"sig": "fast-writer-exception", "what": "writer task raised " + out["err"]}]
    enq = [o[1] for o in case["ops"] if o[0] == "enq"]
    written = [m for n, _ in out["trace"] for m in n]
    if written != enq[:len(written)]:
        fails.append({"sig": "fast-writer-order", "what": "messages written out of order"})
    conf = {o[1]: o[2] for o in case["ops"] if o[0] == "enq"}
    awaiting = None
    early = False
    for op, (new, _) in zip(case["ops"], out["trace"]):
        if op[0] == "rx" and awaiting is not None and awaiting.startswith(op[1][:3]):
            awaiting = None
        for m in new:
            if awaiting is not None:
                early = True
            if conf[m] is not None:
                awaiting = conf[m]
    if early:
        # exactly what the recorded defect produces: every message is written in the step it was queued
        immediate = all(new == ([op[1]] if op[0] == "enq" else []) for op, (new, _) in zip(case["ops"], out["trace"]))
        if immediate:
            fails.append({"sig": "fast-writer-does-not-wait",
                          "what": "a message is written while a confirmation is still awaited: _socket_writer awaits "
                                  "pause_sending_flag.wait() on an Event that is SET while paused, so it never blocks"})
        else:
            fails.append({"sig": "fast-writer-early-other", "what": "a message is written while a confirmation is awaited"})
    return fails


def shrink_writer(case):
    ops = case["ops"]
    for i in range(len(ops)):
        yield {"ops": ops[:i] + ops[i + 1:]}


def nontrivial_writer(case, out):
    return any(o[0] == "enq" and o[2] for o in case["ops"]) and len(case["ops"]) > 2


HDR_WRITER = ("From C14 Require Import Crc Model.\nDefinition run := writer_run.\nDefinition out_eqb := writer_out_eqb.\n"
              "Definition mk_wc (ops : list wop) (exp : list (list Z * bool)) := ((false, ops), exp).\n")


# ================================================================================================
# FAST command channel as a whole (suite `flow`): send_and_forget / send_with_confirmation / send_and_wait_for_response /
# send_and_wait_for_response_processed mixed with incoming messages (confirmations and responses that are lost, late or
# duplicated) and the passage of time, against the real FastSerialCommunicator on mpf.tests.loop.TimeTravelLoop.
# Time unit: 1/64 s (exact in floats).  Model: coq/C14/Flow.v.
FLOW_IGNORED = ["WD:P", "TL:P"]
# header -> does the processor call done_processing_msg_response()   ('XX:' and 'ID:' are the real base processors)
FLOW_PROCS = [["XX:", False], ["ID:", True], ["SA:", True], ["SL:", True], ["DL:", True], ["CH:", True],
              ["-L:", False], ["/L:", False], ["!B:", False]]
FLOW_PROC = dict((h, d) for h, d in FLOW_PROCS)
FLOW_CONF = ["SL:P", "DL:", "TL:P", "AB:", "RA:P", "SL:P", "DL:P"]       # send_with_confirmation headers
FLOW_SAW = ["SA:", "SL:", "DL:", "CH:", "ID:", "SA:", "SL:0B"]            # headers of queries (all have processors)
FLOW_RESP = {"SA:": "SA:0E,2900", "SL:": "SL:0B,01,02,04", "DL:": "DL:P", "CH:": "CH:P", "ID:": "ID:NET FP-CPU-2000 2.06",
             "TL:": "TL:1", "AB:": "AB:P", "RA:": "RA:P"}
FLOW_RX = ["SA:0E,2900", "SL:P", "SL:0B,01", "DL:P", "DL:F", "CH:P", "ID:NET FP-CPU-2000 2.06", "-L:0B", "/L:0B", "!B:02",
           "XX:F", "WD:P", "TL:P", "TL:1", "AB:P", "RA:P", "A", "S", "ZZ:1", "AB", "\x11\x11!"]


def _flow_closing(body):
    """Closing phase: the answers to every query header, (number of queries + 1) times with a second in between.
    Confirmations of send_with_confirmation commands are NOT delivered here: a lost confirmation stays lost."""
    hs = []
    for o in body:
        if o[0] in ("saw", "sawp") and o[2][:3] not in hs:
            hs.append(o[2][:3])
    k = len([o for o in body if o[0] in ("saw", "sawp")]) + 1
    out = []
    for _ in range(min(k, 6)):
        for h in hs:
            out.append(["rx", FLOW_RESP.get(h, h + "P")])
        if any(h not in FLOW_PROC for h in hs):
            out.append(["rx", "-L:01"])
        out.append(["adv", 64])
    return out


def _flow_all_ops(case):
    return case["ops"] + _flow_closing(case["ops"])


def _flow_time_ties(ops):
    """True when two wait_for deadlines could coincide with each other or with an operation (order would then be up
    to asyncio's heap): such histories are not generated and not fed to the model"""
    now, horizon = 0, sum(o[1] for o in ops if o[0] == "adv")
    seen = set()
    for o in ops:
        if o[0] == "adv":
            now += o[1]
        elif o[0] == "sawp":
            t, a = now + o[3], 0
            while t <= horizon + 64 and (o[4] == -1 or a <= o[4]) and a < 400:
                if t % 64 == 0 or t in seen:
                    return True
                seen.add(t)
                t += o[3]
                a += 1
    return False


def gen_flow(rng, tier, i):
    for _ in range(50):
        ops, m = [], 0
        for _ in range(rng.randint(2, 12)):
            r = rng.random()
            if r < 0.12:
                m += 1
                ops.append(["enq", m, None])
            elif r < 0.30:
                m += 1
                ops.append(["enq", m, rng.choice(FLOW_CONF)])
            elif r < 0.48:
                m += 1
                ops.append(["saw", m, rng.choice(FLOW_SAW)])
            elif r < 0.60:
                m += 1
                ops.append(["sawp", m, rng.choice(FLOW_SAW), rng.choice([33, 65, 70, 97, 130, 161]) + 2 * rng.randrange(8),
                            rng.choice([0, 0, 1, 2, 3, -1])])
            elif r < 0.88:
                # an incoming message: often the answer to / confirmation of something sent earlier (possibly twice),
                # otherwise anything
                prev = [o[2] for o in ops if o[0] in ("enq", "saw", "sawp") and o[2]]
                if prev and rng.random() < 0.6:
                    h = rng.choice(prev)[:3]
                    ops.append(["rx", FLOW_RESP.get(h, h + "P")])
                    if rng.random() < 0.15:
                        ops.append(["rx", FLOW_RESP.get(h, h + "P")])
                else:
                    ops.append(["rx", rng.choice(FLOW_RX)])
            else:
                ops.append(["adv", 64 * rng.choice([1, 1, 2, 3, 5])])
        case = {"ops": ops}
        if not _flow_time_ties(_flow_all_ops(case)):
            return case
    return {"ops": [o for o in ops if o[0] != "sawp"]}


def run_flow(case):
    import asyncio
    from mpf.tests.loop import TimeTravelLoop
    from mpf.platforms.fast.communicators.base import FastSerialCommunicator
    loop = TimeTravelLoop()
    asyncio.set_event_loop(loop)
    writes, fin, disp = [], [], []
    try:
        class C(FastSerialCommunicator):
            IGNORED_MESSAGES = list(FLOW_IGNORED)
        import logging
        from unittest.mock import MagicMock
        platform = MagicMock()
        platform.machine.is_shutting_down = False
        platform.debug = False
        c = C(platform, "net", {"debug": False, "watchdog": None, "port": ["x"], "baud": 1})
        c.log = logging.getLogger("c14.flow")
        c.log.disabled = True
        c.port_debug = False
        c.ignore_decode_errors = False

        class W:
            def write(self, msg):
                writes.append(bytes(msg))
        c.writer = W()
        for h, calls_done in FLOW_PROCS:
            if h in ("XX:", "ID:"):
                continue
            if calls_done:
                c.message_processors[h] = lambda msg, h=h: (disp.append(h), c.done_processing_msg_response())
            else:
                c.message_processors[h] = lambda msg, h=h: disp.append(h)
        wt = loop.create_task(c._socket_writer())
        tasks, trace, err = [], [], None

        def spawn(m, coro):
            t = loop.create_task(coro)
            t.add_done_callback(lambda t, m=m: fin.append(m) if not t.cancelled() else None)
            tasks.append(t)
        try:
            for op in _flow_all_ops(case):
                nb, fb = len(writes), len(fin)
                k = op[0]
                if k == "enq":
                    if op[2] is None:
                        c.send_and_forget("M%d" % op[1])
                    else:
                        c.send_with_confirmation("M%d" % op[1], op[2])
                elif k == "saw":
                    spawn(op[1], c.send_and_wait_for_response("M%d" % op[1], op[2]))
                elif k == "sawp":
                    spawn(op[1], c.send_and_wait_for_response_processed("M%d" % op[1], op[2], timeout=op[3] / 64,
                                                                        max_retries=op[4]))
                elif k == "rx":
                    c.parse_incoming_raw_bytes(op[1].encode() + b"\r")
                elif k == "adv":
                    loop.run_until_complete(asyncio.sleep(op[1] / 64))
                for _ in range(8):
                    loop.run_until_complete(asyncio.sleep(0))
                trace.append({"w": [int(w[1:-1]) for w in writes[nb:]], "f": fin[fb:],
                              "p": c.pause_sending_until if c.pause_sending_flag.is_set() else None,
                              "n": bool(c.no_response_waiting.is_set()), "d": bool(c.done_waiting.is_set()),
                              "q": c.send_queue.qsize()})
            for t in tasks + [wt]:
                if t.done() and not t.cancelled() and t.exception():
                    err = type(t.exception()).__name__
        except Exception as e:      # noqa
            err = "%s: %s" % (type(e).__name__, e)
        for t in tasks + [wt]:
            t.cancel()
            try:
                loop.run_until_complete(t)
            except BaseException:   # noqa
                pass
        return {"trace": trace, "err": err, "now": round(loop.time() * 64)}
    finally:
        asyncio.set_event_loop(None)
        loop.close(ignore_running_tasks=True)


def flow_ref(ops):
    """Independent Python simulation of the command channel AS FOUND (used only to classify a failure of the property
    predicate as one of the recorded defects: the failure is 'known' only if the implementation did exactly this)."""
    q_written, paused, nrw, waiters, dw, dwait, now = [], None, True, [], False, [], 0
    trace = []
    st = {"fin": [], "new": []}

    pending = []

    def put(m, u):
        pending.append((m, u))

    def drain():
        nonlocal paused
        while pending:                       # the writer task runs when the caller yields; it never blocks
            m, u = pending.pop(0)
            st["new"].append(m)
            if u is not None:
                paused = u

    def await_done(m):
        if dw:
            st["fin"].append(m)
        else:
            dwait.append(m)

    def gate(w):
        nonlocal nrw
        nrw = False
        put(w["m"], w["u"])
        if w["timed"]:
            await_done(w["m"])
        else:
            st["fin"].append(w["m"])

    def attempt(w):
        if nrw:
            gate(w)
        else:
            waiters.append(w)
    gave_up = []
    for op in ops:
        st["fin"], st["new"] = [], []
        k = op[0]
        if k == "enq":
            put(op[1], op[2])
        elif k == "saw":
            attempt({"m": op[1], "u": op[2], "timed": False})
        elif k == "sawp":
            dw = False
            attempt({"m": op[1], "u": op[2], "timed": True, "dl": now + op[3], "tmo": op[3], "used": 0, "max": op[4]})
        elif k == "rx":
            msg = op[1]
            if msg not in FLOW_IGNORED:
                h = msg[:3]
                if h in FLOW_PROC:
                    if FLOW_PROC[h]:
                        dw = True
                        st["fin"] += dwait
                        dwait = []
                    nrw = True
                    ws, waiters = waiters, []
                    for w in ws:
                        gate(w)
                if paused is not None and paused.startswith(h):
                    paused = None
        elif k == "adv":
            target = now + op[1]
            while True:
                due = [w for w in waiters if w["timed"] and w["dl"] <= target]
                if not due:
                    break
                w = min(due, key=lambda x: x["dl"])
                waiters.remove(w)
                w = dict(w, used=w["used"] + 1)
                if w["max"] == -1 or w["used"] <= w["max"]:
                    w["dl"] += w["tmo"]
                    attempt(w)
                else:
                    gave_up.append(w["m"])
                    await_done(w["m"])
                drain()
            now = target
        drain()
        trace.append({"w": st["new"], "f": st["fin"], "p": paused, "n": nrw, "d": dw, "q": 0})
    return trace, gave_up


FLOW_CFG = "{| f_ignored := %s; f_procs := %s |}" % (
    coqlist(zlist(x.encode()) for x in FLOW_IGNORED),
    coqlist("(%s, %s)" % (zlist(h.encode()), blit(d)) for h, d in FLOW_PROCS))


def coq_flow(case, out):
    ops = _flow_all_ops(case)
    if out["err"] or _flow_time_ties(ops) or len(out["trace"]) != len(ops):
        return None

    def cop(o):
        if o[0] == "enq":
            return "(XEnq %d %s)" % (o[1], opt(o[2], lambda h: zlist(h.encode())))
        if o[0] == "saw":
            return "(XSaw %d %s)" % (o[1], zlist(o[2].encode()))
        if o[0] == "sawp":
            return "(XSawp %d %s %d %s)" % (o[1], zlist(o[2].encode()), o[3], zlit(o[4]))
        if o[0] == "rx":
            return "(XRx %s)" % zlist(o[1].encode())
        return "(XAdv %d)" % o[1]
    exp = coqlist("{| xo_w := %s; xo_f := %s; xo_p := %s; xo_n := %s; xo_d := %s; xo_q := %d |}" %
                  (zlist(t["w"]), zlist(t["f"]), opt(t["p"], lambda h: zlist(h.encode())), blit(t["n"]), blit(t["d"]),
                   t["q"]) for t in out["trace"])
    return "(mk_fl %s %s)" % (coqlist(cop(o) for o in ops), exp)


def oracle_flow(case, out):
    """The property's predicate on what was written to the port (independent of the Coq model):
       order kept / nothing written twice; at most one unconfirmed command in flight; every command is written once the
       answers to all queries have come in (a lost CONFIRMATION must not block anything); a lost RESPONSE is re-sent."""
    if out["err"]:
        return [{"sig": "fast-flow-exception", "what": "the command channel raised " + str(out["err"])}]
    body = case["ops"]
    ops = _flow_all_ops(case)
    trace = out["trace"]
    fails = []
    ref, gave_up = flow_ref(ops)
    as_found = [t["w"] for t in ref] == [t["w"] for t in trace]
    kind = {o[1]: o for o in ops if o[0] in ("enq", "saw", "sawp")}
    written = [m for t in trace for m in t["w"]]
    # -- order / duplicates
    once = [m for m in written if written.count(m) > 1 and not (kind[m][0] == "sawp" and kind[m][4] != 0)]
    if once:
        fails.append({"sig": "fast-flow-written-twice", "what": "command %d written more than once" % once[0]})
    for k in ("enq", "saw"):
        seq = [m for m in written if kind[m][0] == k]
        dedup = [m for i, m in enumerate(seq) if m not in seq[:i]]
        if dedup != sorted(dedup):
            fails.append({"sig": "fast-flow-order", "what": "%s commands written out of order: %r" % (k, dedup)})
    # -- at most one unconfirmed command in flight
    awaiting, early = None, None
    for op, t in zip(ops, trace):
        if op[0] == "rx" and awaiting is not None and op[1] not in FLOW_IGNORED and awaiting.startswith(op[1][:3]):
            awaiting = None
        for m in t["w"]:
            if awaiting is not None and early is None:
                early = m
            if kind[m][2] is not None:
                awaiting = kind[m][2]
    if early is not None:
        if as_found:
            fails.append({"sig": "fast-writer-does-not-wait",
                          "what": "command %d is written while a confirmation is still awaited: _socket_writer awaits "
                                  "pause_sending_flag.wait() on an Event that is SET while paused, so it never blocks" % early})
        else:
            fails.append({"sig": "fast-writer-early-other", "what": "command %d is written while a confirmation is awaited" % early})
    # -- every command is eventually written (closing phase delivered the answers to all queries repeatedly)
    missing = [m for m in kind if m not in written]
    if missing:
        if as_found and all(kind[m][0] == "sawp" and m in gave_up for m in missing):
            fails.append({"sig": "fast-sawp-gives-up-unsent",
                          "what": "send_and_wait_for_response_processed(%d): all wait_for timeouts ran out while the answer to "
                                  "an EARLIER query was outstanding; the command is never queued and the caller goes on to "
                                  "await done_waiting" % missing[0]})
        else:
            fails.append({"sig": "fast-command-never-written",
                          "what": "command %d was never written although the answers to all queries arrived (repeatedly): "
                                  "the command channel is blocked" % missing[0]})
    # -- a lost response is re-sent as configured (judged at the end of the body, before the closing answers)
    now, wtime, answered = 0, {}, {}
    for op, t in list(zip(ops, trace))[:len(body)]:
        if op[0] == "adv":
            now += op[1]
        if op[0] == "rx" and op[1] not in FLOW_IGNORED:
            for m, tw in wtime.items():         # commands written BEFORE this message came in
                if kind[m][0] == "sawp" and kind[m][2].startswith(op[1][:3]) and m not in answered:
                    answered[m] = now
        for m in t["w"]:
            wtime.setdefault(m, now)
    for m, tw in wtime.items():
        o = kind[m]
        if o[0] != "sawp" or o[4] == 0 or m in answered:
            continue
        due = (now - tw) // o[3]
        want = 1 + (due if o[4] == -1 else min(due, o[4]))
        got = len([x for t in trace[:len(body)] for x in t["w"] if x == m])
        if got < want:
            if as_found and got == 1:
                fails.append({"sig": "fast-lost-response-not-retried",
                              "what": "send_and_wait_for_response_processed(%d): no answer for %d/64 s (timeout %d/64 s, "
                                      "max_retries %d) and the command was written once only" % (m, now - tw, o[3], o[4])})
            else:
                fails.append({"sig": "fast-retry-other", "what": "command %d: %d transmissions, %d wanted" % (m, got, want)})
            break
    return fails


def shrink_flow(case):
    ops = case["ops"]
    for i in range(len(ops)):
        yield {"ops": ops[:i] + ops[i + 1:]}
    for i, o in enumerate(ops):
        if o[0] == "sawp":
            yield {"ops": ops[:i] + [["saw", o[1], o[2]]] + ops[i + 1:]}


def nontrivial_flow(case, out):
    ks = [o[0] for o in case["ops"]]
    return ("saw" in ks or "sawp" in ks) and "rx" in ks and len(ks) > 3


def describe_flow(case):
    ks = set(o[0] for o in case["ops"])
    return "+".join(sorted(k for k in ks))


HDR_FLOW = ("From C14 Require Import Crc Model Flow.\nDefinition flow_cfg : fcfg := %s.\n"
            "Definition run := flow_run.\nDefinition out_eqb := flow_out_eqb.\n"
            "Definition mk_fl (ops : list xop) (exp : list xobs) := ((flow_cfg, ops), exp).\n" % FLOW_CFG)


# ================================================================================================
# FAST send_and_wait_for_response_processed with a lost response (oracle only; not modelled)
def gen_retry(rng, tier, i):
    return {"timeout": rng.choice([1, 2, 4]), "max_retries": rng.choice([0, 1, 2, 3]),
            "respond_after": rng.choice([None, None, None, 0.5, 3]), "horizon": 64}


def run_retry(case):
    import asyncio
    from mpf.tests.loop import TimeTravelLoop
    writes = []
    loop = TimeTravelLoop()
    asyncio.set_event_loop(loop)
    try:
        c = _mk_fast(lambda m: None)

        class W:
            def write(self, msg):
                writes.append([round(loop.time() * 1000), bytes(msg).decode()])
        c.writer = W()
        c.message_processors["QQ:"] = lambda msg: c.done_processing_msg_response()
        wt = loop.create_task(c._socket_writer())
        done = {"t": None, "exc": None}

        async def caller():
            try:
                await c.send_and_wait_for_response_processed("QQ:", "QQ:", timeout=case["timeout"],
                                                             max_retries=case["max_retries"])
                done["t"] = round(loop.time() * 1000)
            except Exception as e:     # noqa
                done["exc"] = type(e).__name__
                done["t"] = round(loop.time() * 1000)
        ct = loop.create_task(caller())
        if case["respond_after"] is not None:
            loop.call_later(case["respond_after"], lambda: c.parse_incoming_raw_bytes(b"QQ:P\r"))
        loop.run_until_complete(asyncio.sleep(case["horizon"]))
        res = {"writes": writes, "done": done["t"], "exc": done["exc"]}
        for t in (wt, ct):
            t.cancel()
            try:
                loop.run_until_complete(t)
            except BaseException:   # noqa
                pass
        return res
    finally:
        asyncio.set_event_loop(None)
        loop.close(ignore_running_tasks=True)


def oracle_retry(case, out):
    n = len([w for w in out["writes"] if w[1] == "QQ:\r"])
    if case["respond_after"] is not None and case["respond_after"] < case["timeout"]:
        if n != 1 or out["done"] is None:
            return [{"sig": "fast-response-in-time-mishandled", "what": "a response that arrived in time: %r" % out}]
        return []
    if case["respond_after"] is None:
        # lost response: the property wants 1 + max_retries transmissions and then an end to the wait
        if n == 1 and out["done"] is None and out["exc"] is None:
            return [{"sig": "fast-lost-response-not-retried",
                     "what": "send_and_wait_for_response_processed never re-sends after its timeout and then waits on "
                             "done_waiting for ever (the timeout only guards the wait for the previous response)"}]
        if n == 1 + case["max_retries"] and out["done"] is not None:
            return []
        return [{"sig": "fast-retry-other", "what": "lost response: %d transmissions, caller finished=%r" % (n, out["done"])}]
    # late response
    if n == 1 and out["done"] is not None:
        return [] if case["max_retries"] == 0 else [{"sig": "fast-lost-response-not-retried",
                                                     "what": "late response: no retransmission after the timeout"}]
    return []



# ================================================================================================
# FAST Neuron switch reports: SA: snapshots and -L:/L: events through the REAL FastNetNeuronCommunicator
# (parse_incoming_raw_bytes -> _dispatch_incoming_msg -> _process_sa / _process_switch_closed/_open), the real
# FastHardwarePlatform and the real SwitchController, booted once per worker exactly like mpf/tests/test_Fast_Neuron.py
_FS = {}
FS_NUMS = [0, 1, 2, 3, 4, 5, 6, 7, 8, 9, 10, 11, 40, 56]       # configured in tests/machine_files/fast/config/neuron.yaml
SA_BYTES = 14


def fastsw_init():
    """boot the Neuron machine once per worker.  Never raises: a tree on which the machine no longer boots (e.g. because
    the command channel blocks during init) must be REPORTED by the oracle, not respawn pool workers for ever."""
    if "rig" in _FS or "boot_error" in _FS:
        return
    import logging
    logging.disable(logging.CRITICAL)
    try:
        from mpf.tests.test_Fast_Neuron import TestFastNeuron

        class R(TestFastNeuron):
            def runTest(self):
                pass
        r = R("runTest")
        r.setUp()
        r.expected_duration = 1e9
        if r.startup_error:
            raise RuntimeError("startup_error %r" % (r.startup_error,))
        p = r.machine.hardware_platforms["fast"]
        _FS["platform"] = p
        _FS["comm"] = p.serial_connections["net"]
        _FS["sws"] = sorted([sw for sw in r.machine.switches.values() if sw.platform == p], key=lambda sw: sw.hw_switch.number)
        _FS["rig"] = r
    except BaseException as e:      # noqa
        if isinstance(e, (KeyboardInterrupt, SystemExit)):
            raise
        _FS["boot_error"] = "FAST Neuron machine (mpf.tests.test_Fast_Neuron setUp) did not boot: %s: %s" % (
            type(e).__name__, str(e)[:300])


def gen_fastsw(rng, tier, i):
    ops = []
    snaps = []
    for _ in range(rng.randint(2, 10)):
        r = rng.random()
        if r < 0.30:
            if snaps and rng.random() < 0.5:
                b = rng.choice(snaps)                      # a snapshot identical to an earlier one (re-sync)
            else:
                b = [rng.choice([0, 0, 0xff, rng.randrange(256)]) for _ in range(SA_BYTES)]
                b[0] = rng.randrange(256)
                b[1] = rng.randrange(16)
                if rng.random() < 0.15:
                    b = [0] * SA_BYTES                     # equal to the baseline snapshot every case starts from
            snaps.append(b)
            ops.append(["sa", b])
        else:
            n = rng.choice(FS_NUMS + FS_NUMS + [12, 39, 80, 103])
            ops.append(["closed" if rng.random() < 0.5 else "open", n])
    if rng.random() < 0.3 and snaps:
        ops.append(["sa", snaps[0]])
    return {"ops": ops}


def _fs_states():
    return [int(sw.state) for sw in _FS["sws"]]


def run_fastsw(case):
    fastsw_init()
    if "boot_error" in _FS:
        return {"init": [], "trace": [], "err": _FS["boot_error"], "final": [], "hw": []}
    comm, sws = _FS["comm"], _FS["sws"]
    # make the case self-contained (the machine is reused): an all-zero snapshot, then one event per switch that
    # forces the state that snapshot implies.  Afterwards both the SwitchController and any snapshot cache a changed
    # implementation might keep are in a state that does not depend on earlier cases.
    try:
        comm.parse_incoming_raw_bytes(b"SA:%02X,%s\r" % (SA_BYTES, b"00" * SA_BYTES))
        for sw in sws:
            comm.parse_incoming_raw_bytes(b"%sL:%02X\r" % (b"-" if sw.invert else b"/", sw.hw_switch.number))
    except Exception as e:          # noqa
        return {"init": [], "trace": [], "err": "baseline: %s: %s" % (type(e).__name__, e), "final": [], "hw": []}
    init = [[sw.hw_switch.number, bool(sw.invert), int(sw.state)] for sw in sws]
    trace, err = [], None
    for op in case["ops"]:
        if op[0] == "sa":
            msg = "SA:%02X,%s" % (len(op[1]), bytes(op[1]).hex().upper())
        else:
            msg = "%sL:%02X" % ("-" if op[0] == "closed" else "/", op[1])
        try:
            comm.parse_incoming_raw_bytes(msg.encode() + b"\r")
        except Exception as e:      # noqa
            err = "%s: %s" % (type(e).__name__, e)
            break
        trace.append(_fs_states())
    # the loop is deliberately NOT run: switch state is updated synchronously by the handlers, and running the
    # queued switch events would start games / fire coils against the scripted mock board.  Drop what was queued.
    try:
        _FS["rig"].machine.events.event_queue.clear()
    except Exception:               # noqa
        pass
    hw = [[sw.hw_switch.number, int(sw.hw_state)] for sw in sws]
    return {"init": init, "trace": trace, "err": err, "final": _fs_states(), "hw": hw}


def _bits(b):
    return [(byte >> i) & 1 for byte in b for i in range(8)]


def coq_fastsw(case, out):
    if out["err"]:
        return None
    m = coqlist("(%d, (%s, %d))" % (n, blit(inv), st) for n, inv, st in out["init"])
    ops = coqlist("(FSnap %s)" % zlist(_bits(o[1])) if o[0] == "sa" else
                  "(%s %d)" % ("FClosed" if o[0] == "closed" else "FOpen", o[1]) for o in case["ops"])
    return "(mk_fs %s %s %s)" % (m, ops, coqlist(zlist(t) for t in out["trace"]))


def oracle_fastsw(case, out):
    if out["err"] and "did not boot" in out["err"]:
        return [{"sig": "fast-machine-does-not-boot", "what": out["err"]}]
    if out["err"]:
        return [{"sig": "fast-switch-report-exception", "what": "handling a switch report raised " + out["err"]}]
    want = {n: st for n, inv, st in out["init"]}
    inv = {n: i for n, i, st in out["init"]}
    order = [n for n, _, _ in out["init"]]
    stale_only = True
    bad = None
    last_snap_equal_earlier = False
    seen = []
    for k, (op, got) in enumerate(zip(case["ops"], out["trace"])):
        if op[0] == "sa":
            bits = _bits(op[1])
            for n in order:
                want[n] = (1 if inv[n] else 0) ^ bits[n]
            last_snap_equal_earlier = op[1] in seen
            seen.append(op[1])
        elif op[1] in want:
            want[op[1]] = 1 if op[0] == "closed" else 0
        if got != [want[n] for n in order] and bad is None:
            bad = (k, op[0])
    if out["final"] != [want[n] for n in order] and bad is None:
        bad = (len(case["ops"]), "end")
    if bad is not None:
        return [{"sig": "fast-switch-state-not-last-report",
                 "what": "after report #%d (%s) the SwitchController state differs from the last report per switch"
                         % bad}]
    # the hardware-side state kept on the switch objects must agree with the logical state
    for (n, hw), st in zip(out["hw"], out["final"]):
        if hw != ((1 if inv[n] else 0) ^ st):
            return [{"sig": "fast-switch-hw-state-inconsistent", "what": "switch %d: hw_state %d, state %d" % (n, hw, st)}]
    return []


def shrink_fastsw(case):
    ops = case["ops"]
    for i in range(len(ops)):
        yield {"ops": ops[:i] + ops[i + 1:]}


def nontrivial_fastsw(case, out):
    kinds = set(o[0] for o in case["ops"])
    return "sa" in kinds and len(kinds) > 1


def describe_fastsw(case):
    sas = [o[1] for o in case["ops"] if o[0] == "sa"]
    rep = any(sas[i] in sas[:i] for i in range(len(sas)))
    return "snapshots=%d%s" % (len(sas), " repeated" if rep else "")


HDR_FASTSW = ("From C14 Require Import Crc Model.\nDefinition run := fastsw_run.\nDefinition out_eqb := fastsw_out_eqb.\n"
              "Definition mk_fs (m : fsw) (ops : list fop) (tr : list (list Z)) := ((m, ops), tr).\n")


# ================================================================================================
# FAST switch reports END TO END from bytes (suite `fastbytes`): a stream of SA: snapshots, -L:/L: events, messages
# that are not reports (ignored / unknown / other processors) and reports whose header was corrupted, cut into
# arbitrary reads and possibly truncated, through the real parse_incoming_raw_bytes of the booted Neuron machine.
FB_OTHER = ["WD:P", "TL:P", "XX:F", "!B:00", "ZZ:1", "A", "+L:0B", "TA:0E,FFFFFFFFFFFFFFFFFFFFFFFFFFFF", "-M:05", "/K:05",
            "-L", "SA"]


def _fb_msg(op):
    if op[0] == "sa":
        return "SA:%02X,%s" % (len(op[1]), bytes(op[1]).hex().upper())
    if op[0] in ("closed", "open"):
        return "%sL:%02X" % ("-" if op[0] == "closed" else "/", op[1])
    return op[1]


def gen_fastbytes(rng, tier, i):
    ops = []
    base = gen_fastsw(rng, tier, i)["ops"]
    for op in base:
        r = rng.random()
        if r < 0.12:
            ops.append(["other", rng.choice(FB_OTHER)])
        if r > 0.9:
            # a report whose first header byte was hit by noise: no longer a report, must change nothing
            m = _fb_msg(op)
            ops.append(["other", rng.choice("+*TQ") + m[1:]])
        else:
            ops.append(op)
    stream = b"".join(_fb_msg(o).encode() + b"\r" for o in ops)
    if rng.random() < 0.3:
        stream = stream[:rng.randrange(len(stream) + 1)]          # cut anywhere
    cuts = sorted(set(rng.randrange(len(stream) + 1) for _ in range(rng.choice([0, 1, 2, 4, 8, 20]))))
    if rng.random() < 0.06 and len(stream) < 120:
        cuts = list(range(1, len(stream)))
    chunks, prev = [], 0
    for c in cuts + [len(stream)]:
        if c > prev:
            chunks.append(list(stream[prev:c]))
            prev = c
    return {"chunks": chunks}


def run_fastbytes(case):
    fastsw_init()
    if "boot_error" in _FS:
        return {"init": [], "trace": [], "err": _FS["boot_error"], "buf": []}
    comm, sws = _FS["comm"], _FS["sws"]
    try:
        comm.received_msg = b""
        comm.parse_incoming_raw_bytes(b"SA:%02X,%s\r" % (SA_BYTES, b"00" * SA_BYTES))
        for sw in sws:
            comm.parse_incoming_raw_bytes(b"%sL:%02X\r" % (b"-" if sw.invert else b"/", sw.hw_switch.number))
    except Exception as e:          # noqa
        return {"init": [], "trace": [], "err": "baseline: %s: %s" % (type(e).__name__, e), "buf": []}
    init = [[sw.hw_switch.number, bool(sw.invert), int(sw.state)] for sw in sws]
    trace, err = [], None
    for ch in case["chunks"]:
        try:
            comm.parse_incoming_raw_bytes(bytes(ch))
        except Exception as e:      # noqa
            err = "%s: %s" % (type(e).__name__, e)
            break
        trace.append(_fs_states())
    buf = list(comm.received_msg)
    comm.received_msg = b""
    try:
        _FS["rig"].machine.events.event_queue.clear()
    except Exception:               # noqa
        pass
    return {"init": init, "trace": trace, "err": err, "buf": buf}


def coq_fastbytes(case, out):
    if out["err"]:
        return None
    m = coqlist("(%d, (%s, %d))" % (n, blit(inv), st) for n, inv, st in out["init"])
    return "(mk_fb %s %s %s)" % (m, coqlist(zlist(c) for c in case["chunks"]), coqlist(zlist(t) for t in out["trace"]))


def oracle_fastbytes(case, out):
    if out["err"] and "did not boot" in out["err"]:
        return [{"sig": "fast-machine-does-not-boot", "what": out["err"]}]
    if out["err"]:
        return [{"sig": "fast-switch-report-exception", "what": "handling received bytes raised " + out["err"]}]
    want = {n: st for n, inv, st in out["init"]}
    inv = {n: i for n, i, st in out["init"]}
    order = [n for n, _, _ in out["init"]]
    pending = b""
    for k, (ch, got) in enumerate(zip(case["chunks"], out["trace"])):
        pending += bytes(ch)
        while b"\r" in pending:
            msg, pending = pending.split(b"\r", 1)
            t = msg.decode("latin1")
            if t.startswith("SA:") and t.count(",") == 1:
                bits = _bits(bytes.fromhex(t.split(",")[1]))
                for n in order:
                    want[n] = (1 if inv[n] else 0) ^ bits[n]
            elif t[:3] in ("-L:", "/L:") and len(t) > 3:
                n = int(t[3:], 16)
                if n in want:
                    want[n] = 1 if t[0] == "-" else 0
        if got != [want[n] for n in order]:
            return [{"sig": "fast-bytes-switch-state-not-last-report",
                     "what": "after read #%d the SwitchController state differs from the last complete report per switch "
                             "(incomplete, non-report and corrupted messages must change nothing)" % k}]
    if out["buf"] != list(pending):
        return [{"sig": "fast-bytes-carry-over", "what": "bytes carried over differ from the incomplete last message"}]
    return []


def shrink_fastbytes(case):
    ch = case["chunks"]
    for i in range(len(ch) - 1):
        yield {"chunks": ch[:i] + [ch[i] + ch[i + 1]] + ch[i + 2:]}
    stream = bytes(sum(ch, []))
    msgs = stream.split(b"\r")
    for i in range(len(msgs)):
        rest = b"\r".join(msgs[:i] + msgs[i + 1:])
        if rest:
            yield {"chunks": [list(rest)]}


def nontrivial_fastbytes(case, out):
    s = bytes(sum(case["chunks"], []))
    return len(case["chunks"]) > 1 and b"SA:" in s and b"L:" in s


def describe_fastbytes(case):
    n = len(case["chunks"])
    return "reads=%s" % ("1" if n == 1 else "2-5" if n <= 5 else ">5")


HDR_FASTBYTES = ("From C14 Require Import Crc Model Links.\nDefinition run := faste2e_run.\nDefinition out_eqb := fastsw_out_eqb.\n"
                 "Definition mk_fb (m : fsw) (chunks tr : list (list Z)) := ((m, chunks), tr).\n")


# ================================================================================================
# header tables of ALL FAST processors (suite `route`): bytes -> parse_incoming_raw_bytes -> _dispatch_incoming_msg ->
# which message processor is called with which payload (processors replaced by recorders, table keys untouched), and
# PKONE _parse_msg's messages_in_flight / send_ready bookkeeping.
ROUTE_KINDS = ["PNeuron", "PNano", "PRetro", "PExp", "PDmd", "PSeg", "PAud", "PRgb", "PEmu"]
# independent statement of the expected tables (FAST serial protocol as used by the communicators)
_NET = ["XX:", "ID:", "SA:", "CH:", "!B:", "\x11\x11!", "NN:"]
ROUTE_TABLE = {
    "PNeuron": (_NET + ["DL:", "SL:", "/L:", "-L:"], ["WD:P", "TL:P"]),
    "PNano": (_NET + ["DN:", "SN:", "/N:", "-N:"], ["WD:P", "TN:P"]),
    "PRetro": (_NET + ["DL:", "SL:", "/L:", "-L:"], ["WD:P", "TL:P", "L1:P", "GI:P"]),
    "PExp": (["XX:", "ID:", "BR:"], ["XX:F"]),
    "PDmd": (["XX:", "ID:"], []), "PSeg": (["XX:", "ID:"], []), "PEmu": (["XX:", "ID:"], []),
    "PAud": (["XX:", "ID:"], ["AV:", "AS:", "AH:", "AM:"]),
    "PRgb": (["XX:", "ID:", "!B:"], ["RX:P"]),
}
ROUTE_MSGS = ["ID:NET FP-CPU-2000  2.06", "ID:EXP FP-EXP-0201  0.11", "XX:F", "XX:U", "WD:P", "TL:P", "TN:P", "L1:P", "GI:P",
              "RX:P", "AV:", "AV:0A", "AS:", "AM:", "AH:", "SA:0E,2900", "CH:2000,FF", "!B:00", "!B:02", "\x11\x11!", "NN:00,x",
              "DL:P", "DL:00,81,00", "SL:P", "SL:0B,01", "DN:P", "SN:P", "-L:0B", "/L:0B", "-N:0B", "/N:0B", "BR:P", "BR:F",
              "A", "", "ZZ:1", "TL:1", "WD:F", "XX:", "ID:"]


def _route_cls(kind):
    from mpf.platforms.fast.communicators import net_neuron, net_nano, net_retro, exp, dmd, seg, aud, rgb, emu
    return {"PNeuron": ("net", net_neuron.FastNetNeuronCommunicator), "PNano": ("net", net_nano.FastNetNanoCommunicator),
            "PRetro": ("net", net_retro.FastNetRetroCommunicator), "PExp": ("exp", exp.FastExpCommunicator),
            "PDmd": ("dmd", dmd.FastRgbDmdCommunicator), "PSeg": ("seg", seg.FastSegCommunicator),
            "PAud": ("aud", aud.FastAudCommunicator), "PRgb": ("rgb", rgb.FastRgbCommunicator),
            "PEmu": ("emu", emu.FastEmuCommunicator)}[kind]


def gen_route(rng, tier, i):
    if rng.random() < 0.2:
        n = rng.randint(1, 8)
        stream = []
        for _ in range(n):
            stream += [b for b in rng.choice(PKONE_MSGS).encode() if b != 69] + [69]
        if rng.random() < 0.3:
            stream = stream[:rng.randrange(len(stream) + 1)]
        kind = "pkone"
        extra = {"n": rng.choice([0, 1, 2, 3, 5, 9]), "mx": rng.choice([0, 1, 2, 10])}
    else:
        kind = rng.choice(ROUTE_KINDS)
        ign = ROUTE_TABLE[kind][1]
        # the writer is paused until this header before the reads: an IGNORED message must not lift the pause
        if ign and rng.random() < 0.5:
            pause = rng.choice(ign)
        else:
            pause = rng.choice(["WD:P", "TL:P", "TN:P", "XX:F", "ID:", "SA:", "DL:P", "SL:P", "AV:", "RX:P", "BR:P", "L1:P"])
        near = ign + [pause, pause[:3] + "1", pause[:2]]
        stream = []
        for _ in range(rng.randint(1, 8)):
            stream += list((rng.choice(near) if rng.random() < 0.25 else rng.choice(ROUTE_MSGS)).encode()) + [13]
        if rng.random() < 0.25:
            stream = stream[:rng.randrange(len(stream) + 1)]
        extra = {"pause": pause}
    cuts = sorted(set(rng.randrange(len(stream) + 1) for _ in range(rng.choice([0, 1, 2, 4, 8, 20]))))
    chunks, prev = [], 0
    for c in cuts + [len(stream)]:
        if c > prev:
            chunks.append(stream[prev:c])
            prev = c
    return dict(extra, kind=kind, chunks=chunks)


def _route_run(case, chunks):
    import logging
    from unittest.mock import MagicMock
    if case["kind"] == "pkone":
        from mpf.platforms.pkone.pkone_serial_communicator import PKONESerialCommunicator
        c = PKONESerialCommunicator.__new__(PKONESerialCommunicator)
        c.received_msg = b""
        c.messages_in_flight = case["n"]
        c.max_messages_in_flight = case["mx"]
        c.read_task = MagicMock()
        ready = []
        c.send_ready = MagicMock()
        c.send_ready.set = lambda: ready.append(1)
        c.log = logging.getLogger("c14.pkone")
        c.log.disabled = True
        c.platform = MagicMock()
        err = None
        try:
            for ch in chunks:
                c._parse_msg(bytes(ch))
        except Exception as e:      # noqa
            err = type(e).__name__
        return {"calls": [], "dead": err, "n": c.messages_in_flight, "ready": bool(ready), "nrw": False, "resumed": False}
    name, cls = _route_cls(case["kind"])
    platform = MagicMock()
    platform.machine.is_shutting_down = False
    platform.debug = False
    c = cls(platform, name, {"debug": False, "watchdog": None, "port": ["x"], "baud": 1, "io_loop": {}})
    c.log = logging.getLogger("c14.route")
    c.log.disabled = True
    c.port_debug = False
    c.ignore_decode_errors = False
    calls = []
    for h in list(c.message_processors):
        c.message_processors[h] = lambda payload, h=h: calls.append([list(h.encode()), list(payload.encode())])
    dead = None
    c.pause_sending(case["pause"])
    c.no_response_waiting.clear()
    for ch in chunks:
        try:
            c.parse_incoming_raw_bytes(bytes(ch))
        except Exception as e:      # noqa
            dead = type(e).__name__
            break
    return {"calls": calls, "dead": dead, "n": 0, "ready": False, "nrw": bool(c.no_response_waiting.is_set()),
            "resumed": not c.pause_sending_flag.is_set()}


def run_route(case):
    return {"split": _route_run(case, case["chunks"]), "whole": _route_run(case, [sum(case["chunks"], [])])}


def coq_route(case, out):
    o = out["split"]
    if o["dead"] is not None:
        return None
    ch = coqlist(zlist(c) for c in case["chunks"])
    inp = ("(R2Pkone %d %d %s)" % (case["n"], case["mx"], ch) if case["kind"] == "pkone"
           else "(R2Fast %s %s %s)" % (case["kind"], zlist(case["pause"].encode()), ch))
    return ("(%s, {| r2_calls := %s; r2_dead := false; r2_n := %d; r2_ready := %s; r2_resumed := %s; r2_nrw := %s |})" % (
        inp, coqlist("(%s, %s)" % (zlist(h), zlist(p)) for h, p in o["calls"]), o["n"], blit(o["ready"]),
        blit(o["resumed"]), blit(o["nrw"])))


def oracle_route(case, out):
    a, b = out["split"], out["whole"]
    if a["dead"] or b["dead"]:
        return [{"sig": "route-exception", "what": "reader raised %s" % (a["dead"] or b["dead"])}]
    if (a["calls"], a["n"], a["ready"], a["resumed"], a["nrw"]) != (b["calls"], b["n"], b["ready"], b["resumed"], b["nrw"]):
        return [{"sig": "route-chunking-dependent", "what": "processor calls / in-flight counter differ between split and unsplit delivery"}]
    stream = bytes(sum(case["chunks"], []))
    if case["kind"] == "pkone":
        k = stream.count(b"E")
        n, ready = case["n"], False
        for _ in range(k):
            n -= 1
            ready = ready or n <= case["mx"]
            n = max(n, 0)
        if (a["n"], a["ready"]) != (n, ready):
            return [{"sig": "pkone-inflight-wrong", "what": "messages_in_flight %r / send_ready %r, expected %r / %r" % (a["n"], a["ready"], n, ready)}]
        return []
    hdrs, ign = ROUTE_TABLE[case["kind"]]
    want = []
    for m in stream.split(b"\r")[:-1]:
        t = m.decode()
        if t and t not in ign and t[:3] in hdrs:
            want.append([list(t[:3].encode()), list(t[3:].encode())])
    if a["calls"] != want:
        return [{"sig": "fast-route-wrong-processor", "what": "%s: message processors called %r, expected %r" % (case["kind"], a["calls"][:4], want[:4])}]
    msgs = [m.decode() for m in stream.split(b"\r")[:-1] if m]
    resumed = any(t not in ign and case["pause"].startswith(t[:3]) for t in msgs)
    if a["resumed"] != resumed:
        return [{"sig": "fast-route-wrong-resume",
                 "what": "%s paused until %r: sending %s although the messages received say otherwise (an ignored message never "
                         "lifts the pause; any other message whose first three characters start the header does)"
                         % (case["kind"], case["pause"], "resumed" if a["resumed"] else "still paused")}]
    if a["nrw"] != bool(want):
        return [{"sig": "fast-route-wrong-release", "what": "%s: no_response_waiting is %r after %d processed messages" % (case["kind"], a["nrw"], len(want))}]
    return []


def shrink_route(case):
    ch = case["chunks"]
    for i in range(len(ch)):
        yield dict(case, chunks=ch[:i] + ch[i + 1:])
    for i in range(len(ch) - 1):
        yield dict(case, chunks=ch[:i] + [ch[i] + ch[i + 1]] + ch[i + 2:])


def nontrivial_route(case, out):
    return len(case["chunks"]) > 1 and (case["kind"] == "pkone" or len(out["split"]["calls"]) >= 1)


def describe_route(case):
    return case["kind"]


HDR_ROUTE = "From C14 Require Import Crc Model Links Route2.\nDefinition run := route2_run.\nDefinition out_eqb := route2_out_eqb.\n"

SUITES = [
    Suite("opp", gen_opp, run_opp, HDR_OPP, coq_opp, oracle_opp, shrink_opp, nontrivial_opp,
          {"quick": 1200, "thorough": 80000}, describe=describe_opp, shard=150),
    Suite("reader", gen_reader, run_reader, HDR_READER, coq_reader, oracle_reader, shrink_reader, nontrivial_reader,
          {"quick": 1000, "thorough": 40000}, describe=describe_reader, shard=250),
    Suite("writer", gen_writer, run_writer, HDR_WRITER, coq_writer, oracle_writer, shrink_writer, nontrivial_writer,
          {"quick": 500, "thorough": 20000}, shard=125),
    Suite("fastsw", gen_fastsw, run_fastsw, HDR_FASTSW, coq_fastsw, oracle_fastsw, shrink_fastsw, nontrivial_fastsw,
          {"quick": 600, "thorough": 25000}, worker_init=fastsw_init, describe=describe_fastsw, shard=150),
    Suite("fastbytes", gen_fastbytes, run_fastbytes, HDR_FASTBYTES, coq_fastbytes, oracle_fastbytes, shrink_fastbytes,
          nontrivial_fastbytes, {"quick": 400, "thorough": 8000}, worker_init=fastsw_init, describe=describe_fastbytes, shard=100),
    Suite("route", gen_route, run_route, HDR_ROUTE, coq_route, oracle_route, shrink_route, nontrivial_route,
          {"quick": 500, "thorough": 12000}, describe=describe_route, shard=125),
    Suite("flow", gen_flow, run_flow, HDR_FLOW, coq_flow, oracle_flow, shrink_flow, nontrivial_flow,
          {"quick": 600, "thorough": 15000}, describe=describe_flow, shard=150),
    Suite("retry", gen_retry, run_retry, None, None, oracle_retry, None, None,
          {"quick": 40, "thorough": 400}),
]
