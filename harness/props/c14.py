"""C14 — Serial links: framing, integrity and command flow control (OPP, FAST, PKONE)."""
import ast
import os

from vlib import Suite, zlist, zlit, coqlist, blit, opt

ID = "C14"
READY = True
RULE = ("opp: streams of 1-9 segments (valid 7/11-byte reports for configured and unconfigured boards, EOM bytes, "
        "reports with 1-3 corrupted bytes, truncated reports, noise incl. address/command look-alikes, 10-EOM flushes, "
        "and the refutation-witness family) cut into random reads down to single bytes; non-trivial = at least one cut "
        "and at least one report delivered.  reader: FAST (CR) / PKONE ('E') streams of 1-8 messages incl. empty ones, "
        "bytes that can never be UTF-8, optional truncation, random reads; non-trivial = more than one read and a "
        "message decoded.  writer: 1-12 operations (queue plain / confirmed message, incoming message) against the real "
        "_socket_writer task on an asyncio loop; non-trivial = a confirmed message and > 2 operations.  fastsw: 2-10 "
        "SA: snapshots (incl. snapshots identical to an earlier one / to the baseline) interleaved with -L:/L: events for "
        "configured and unknown switch numbers, fed as bytes to the real FastNetNeuronCommunicator of a machine booted "
        "like test_Fast_Neuron (real FAST platform, real SwitchController); non-trivial = snapshot and event in one case.  retry: "
        "send_and_wait_for_response_processed with lost / late / timely responses on the virtual-time loop (oracle only)")
TRUSTED_BASE = [
    "Coq 8.16.1 kernel (coqc); vm_compute for the finite sweeps over bytes (256 and 256x256 cases, lifted to "
    "universally quantified lemmas through forallb_forall), for refutation witnesses and for evaluating the model in "
    "the correspondence run; no native_compute",
    "axioms: none (every Print Assumptions is 'Closed under the global context')",
    "translator harness/props/c14.py::translate (Python ast -> coq/C14/gen/Crc.v): CRC8_LOOKUP literal, the initial "
    "value and update shape of both CRC loops, READ_GEN2_INP_CMD / READ_MATRIX_INP / EOM_CMD; fail-closed",
    "hand-written model coq/C14/Model.v tied to /repo by correspondence on every run: OPPSerialCommunicator._parse_msg + "
    "OppHardwarePlatform.process_received_message/read_gen2_inp_resp/read_matrix_inp_resp, "
    "FastSerialCommunicator.parse_incoming_raw_bytes/_dispatch_incoming_msg/_socket_writer/pause_sending, "
    "PKONESerialCommunicator._parse_msg, all driven on real objects with mocked platform/machine; "
    "FastNetNeuronCommunicator._process_sa/update_switches_from_hw_data/_process_switch_open/_closed + "
    "SwitchController.process_switch_by_num/process_switch_obj on a machine booted by mpf.tests.test_Fast_Neuron.TestFastNeuron.setUp "
    "(its mock serial boards and tests/machine_files/fast/config/neuron.yaml are part of the rig)",
    "CPython bytes.decode() (model domain: a message decodes iff all bytes < 0x80; generators never emit 0xC2..0xF4), "
    "asyncio Queue/Event/Task scheduling (writer), mpf.tests.loop.TimeTravelLoop (retry suite)",
    "independent Python reference pieces used by the oracles only: bitwise CRC-8 (poly 0x07), byte-at-a-time framing automaton",
]
ASSUMPTIONS = [
    "serial transport, OS buffering and serial_asyncio are outside the model; reads are arbitrary splits of the byte stream",
    "OPP: the _initial handlers (used during _identify_connection) and readuntil-based start-up are not modelled; "
    "matrix cards start from an integer old_state (the code's initial [0, 0] list would raise TypeError on the first "
    "change report if the initial read-out had been lost)",
    "switch state is observed as OPPInputCard.old_state and the process_switch_by_num calls, not through SwitchController",
    "FAST writer: one step of the model = one operation followed by running the loop until idle",
    "FAST switch reports: SA: snapshots carry 14 bytes (all 112 switch numbers; a shorter snapshot raises KeyError in "
    "update_switches_from_hw_data for a configured switch beyond it); the event loop is not run between reports "
    "(switch state is updated synchronously; queued switch events are dropped so that the scripted mock board is not "
    "driven into games); Nano -N:/N: share the handlers and are not driven separately",
]
LEVEL_TEXT = ("Machine-checked proof (Coq) over executable models of the three incremental decoders and the FAST writer: "
              "the OPP loop refines a byte-at-a-time automaton for every split into reads, CRC-8 (table translated from "
              "the source, proved equal to polynomial 0x07) detects every single-byte change of a frame of any length, "
              "bad-CRC frames never change state, the state is the last valid report per board, ten EOM bytes always "
              "resynchronise; FAST/PKONE delimiter framing is split independent; queue order is preserved.  Three parts "
              "of the property are refuted for the code as found (theorems with witnesses, reproduced on the code on "
              "every run as known findings): OPP can stay out of step for ever, a non-UTF-8 byte ends the FAST/PKONE "
              "reader, the FAST writer never waits for a confirmation / never retries.")
LEVEL_NOTE = ("Trusted: Coq kernel + vm_compute, no axioms; translator for the CRC table; hand model validated by "
              "differential runs against the working tree on every check; real serial timing is outside the model.")
TECHNIQUE = ("Coq proof (refinement to a byte automaton, induction over streams, finite sweeps lifted by forallb) over "
             "translated CRC table + hand-written model; differential correspondence by vm_compute; direct oracles")
DESIGN_REF = "DESIGN.md section 3, C14"


# ------------------------------------------------------------------------------------------------
# (T) translation of the CRC table, CRC loop constants and command bytes from opp_rs232_intf.py
CRC_UPDATE_SHAPE = ("Assign(targets=[Name(id='crc8_byte', ctx=Store())], value=Subscript(value=Attribute(value=Name("
                    "id='OppRs232Intf', ctx=Load()), attr='CRC8_LOOKUP', ctx=Load()), slice=BinOp(left=Name("
                    "id='crc8_byte', ctx=Load()), op=BitXor(), right=Name(id='ind_int', ctx=Load())), ctx=Load()))")


def _crc_loop_facts(fn, what):
    """fail closed unless the function is `crc = <int>; loop: crc = TABLE[crc ^ byte]`; returns the initial value"""
    init = None
    updates = 0
    for n in ast.walk(fn):
        if isinstance(n, ast.Assign) and len(n.targets) == 1 and isinstance(n.targets[0], ast.Name) \
                and n.targets[0].id == "crc8_byte":
            if isinstance(n.value, ast.Constant) and isinstance(n.value.value, int):
                if init is not None:
                    raise ValueError("translate:opp_rs232_intf.py:%s: two initialisations" % what)
                init = n.value.value
            elif ast.dump(n) == CRC_UPDATE_SHAPE:
                updates += 1
            else:
                raise ValueError("translate:opp_rs232_intf.py:%s: unsupported crc8_byte assignment" % what)
    if init is None or updates != 1:
        raise ValueError("translate:opp_rs232_intf.py:%s: loop shape changed" % what)
    return init


def translate(repo, gendir):
    p = os.path.join(repo, "mpf/platforms/opp/opp_rs232_intf.py")
    tree = ast.parse(open(p).read())
    cls = [n for n in tree.body if isinstance(n, ast.ClassDef) and n.name == "OppRs232Intf"]
    if len(cls) != 1:
        raise ValueError("translate:opp_rs232_intf.py:OppRs232Intf missing")
    table, consts, funcs = None, {}, {}
    for n in cls[0].body:
        if isinstance(n, ast.Assign) and len(n.targets) == 1 and isinstance(n.targets[0], ast.Name):
            name = n.targets[0].id
            if name == "CRC8_LOOKUP":
                if not isinstance(n.value, ast.List):
                    raise ValueError("translate:opp_rs232_intf.py:CRC8_LOOKUP not a list literal")
                table = []
                for e in n.value.elts:
                    if not (isinstance(e, ast.Constant) and type(e.value) is int):
                        raise ValueError("translate:opp_rs232_intf.py:CRC8_LOOKUP non-literal element")
                    table.append(e.value)
            elif isinstance(n.value, ast.Constant) and isinstance(n.value.value, bytes) and len(n.value.value) == 1:
                consts[name] = n.value.value[0]
        if isinstance(n, ast.FunctionDef):
            funcs[n.name] = n
    if table is None or len(table) != 256:
        raise ValueError("translate:opp_rs232_intf.py:CRC8_LOOKUP must have 256 entries")
    for f in ("calc_crc8_whole_msg", "calc_crc8_part_msg"):
        if f not in funcs:
            raise ValueError("translate:opp_rs232_intf.py:%s missing" % f)
    i1 = _crc_loop_facts(funcs["calc_crc8_whole_msg"], "calc_crc8_whole_msg")
    i2 = _crc_loop_facts(funcs["calc_crc8_part_msg"], "calc_crc8_part_msg")
    if i1 != i2:
        raise ValueError("translate:opp_rs232_intf.py: the two CRC loops start from different values")
    for c in ("READ_GEN2_INP_CMD", "READ_MATRIX_INP", "EOM_CMD"):
        if c not in consts:
            raise ValueError("translate:opp_rs232_intf.py:%s missing" % c)
    os.makedirs(gendir, exist_ok=True)
    txt = ("(* GENERATED on every run by harness/props/c14.py::translate from mpf/platforms/opp/opp_rs232_intf.py *)\n"
           "From Common Require Import Prelude.\nOpen Scope Z_scope.\n"
           "Definition crc_table : list Z := %s.\n"
           "Definition crc_init : Z := %d.\n"
           "Definition cmd_read_gen2_inp : Z := %d.\n"
           "Definition cmd_read_matrix_inp : Z := %d.\n"
           "Definition cmd_eom : Z := %d.\n" % (zlist(table), i1, consts["READ_GEN2_INP_CMD"],
                                                 consts["READ_MATRIX_INP"], consts["EOM_CMD"]))
    path = os.path.join(gendir, "Crc.v")
    if not os.path.exists(path) or open(path).read() != txt:      # keep the timestamp when nothing changed
        with open(path, "w") as f:
            f.write(txt)





# ================================================================================================
# independent reference pieces for the oracles (NOT the Coq model): bitwise CRC-8 poly 0x07 init 0xff
def crc8_ref(bs):
    c = 0xff
    for b in bs:
        c ^= b
        for _ in range(8):
            c = ((c << 1) ^ 0x07) & 0xff if c & 0x80 else (c << 1) & 0xff
    return c


def is_addr(b):
    return (b & 0xe0) == 0x20


def automaton_ref(stream):
    """byte-at-a-time framing (used only to classify a resynchronisation failure as the recorded one)"""
    st, acc, need, out = "idle", [], 0, []
    for b in stream:
        if st == "lost":
            if is_addr(b):
                st, acc = "addr", [b]
        elif st == "idle":
            if is_addr(b):
                st, acc = "addr", [b]
            elif b != 0xff:
                st = "lost"
        elif st == "addr":
            if b == 0x08:
                st, acc, need = "frame", acc + [b], 5
            elif b == 0x19:
                st, acc, need = "frame", acc + [b], 9
            else:
                st = "lost"
        else:
            acc = acc + [b]
            need -= 1
            if need == 0:
                out.append(acc)
                st = "idle"
    return out


INP_ADDRS = [0x20, 0x22]
MAT_ADDRS = [0x21, 0x22]
SPICE = [0x00, 0xff, 0x20, 0x21, 0x22, 0x08, 0x19, 0x3f, 0x40, 0xfe, 0xf0]


def mk_frame(rng, prev):
    kind = rng.choice(["g", "g", "g", "m"])
    if kind == "g":
        a = rng.choice([0x20, 0x20, 0x22, 0x22, 0x23, 0x3f])
        n = 4
    else:
        a = rng.choice([0x21, 0x21, 0x22, 0x20])
        n = 8
    key = (kind, a)
    r = rng.random()
    if key in prev and r < 0.45:
        data = list(prev[key])
        for _ in range(rng.choice([0, 1, 1, 2])):
            i = rng.randrange(n)
            data[i] ^= 1 << rng.randrange(8)
    elif r < 0.75:
        data = [rng.choice(SPICE) for _ in range(n)]
    else:
        data = [rng.randrange(256) for _ in range(n)]
    prev[key] = data
    body = [a, 0x08 if kind == "g" else 0x19] + data
    return body + [crc8_ref(body)]


def gen_opp(rng, tier, i):
    segs = []
    prev = {}
    if rng.random() < 0.06:
        # the family of the refutation witness: data bytes that look like an address/command pair
        a = rng.choice([0x20, 0x22])
        body = [a, 0x08, rng.choice([0x21, 0x20, 0x22]), 0x08, rng.randrange(256), rng.randrange(256)]
        f = body + [crc8_ref(body)]
        segs.append(["noise", [rng.choice([0x20, 0x21, 0x3f])]])
        for _ in range(rng.randint(3, 8)):
            segs.append(["valid", f])
            segs.append(["eom", [0xff]])
    else:
        for _ in range(rng.randint(1, 9)):
            r = rng.random()
            if r < 0.55:
                segs.append(["valid", mk_frame(rng, prev)])
                if rng.random() < 0.5:
                    segs.append(["eom", [0xff] * rng.choice([1, 1, 2])])
            elif r < 0.67:
                f = mk_frame(rng, dict(prev))
                for _ in range(rng.choice([1, 1, 1, 2, 3])):
                    k = rng.randrange(len(f))
                    f[k] = rng.choice([f[k] ^ (1 << rng.randrange(8)), rng.randrange(256), rng.choice(SPICE)])
                segs.append(["corrupt", f])
            elif r < 0.75:
                f = mk_frame(rng, dict(prev))
                segs.append(["trunc", f[:rng.randrange(1, len(f))]])
            elif r < 0.87:
                segs.append(["noise", [rng.choice(SPICE + [rng.randrange(256)]) for _ in range(rng.choice([1, 1, 2, 3, 6, 12]))]])
            else:
                segs.append(["flush", [0xff] * 10])
    stream = [b for _, s in segs for b in s]
    cuts = sorted(set(rng.randrange(len(stream) + 1) for _ in range(rng.choice([0, 1, 2, 4, 8, 30]))))
    if rng.random() < 0.12:
        cuts = list(range(1, len(stream)))
    init = {"inp": [[a, rng.choice([0xffffffff, 0, rng.getrandbits(32)])] for a in INP_ADDRS],
            "mat": [[a, rng.choice([0xffffffffffffffff, 0, rng.getrandbits(64)])] for a in MAT_ADDRS]}
    return {"segs": segs, "cuts": cuts, "init": init}


def chunks_of(case):
    stream = [b for _, s in case["segs"] for b in s]
    out, prev = [], 0
    for c in list(case["cuts"]) + [len(stream)]:
        if c > prev:
            out.append(stream[prev:c])
            prev = c
    return out


def _opp_run(chunks, init):
    import logging
    from collections import defaultdict
    from unittest.mock import MagicMock
    from mpf.platforms.opp.opp import OppHardwarePlatform
    from mpf.platforms.opp.opp_serial_communicator import OPPSerialCommunicator
    from mpf.platforms.opp.opp_switch import OPPInputCard, OPPMatrixCard
    p = OppHardwarePlatform.__new__(OppHardwarePlatform)
    p.machine = MagicMock()
    p.log = logging.getLogger("c14.opp")
    p.log.disabled = True
    events, frames = [], []

    def psn(state, num, platform, logical=False):
        _, card, idx = num.split("-")
        events.append([int(card) + 0x20, int(idx), int(state)])
    p.machine.switch_controller.process_switch_by_num = psn
    p.inp_dict, p.inp_addr_dict, p.matrix_inp_addr_dict = {}, {}, {}
    p.bad_crc = defaultdict(lambda: 0)
    p.opp_connection = {}
    p._poll_response_received = {"c": MagicMock()}
    p.opp_commands = {0xf0: p.inv_resp, 0xff: p.eom_resp, 0x0d: p.get_gen2_cfg_resp, 0x08: p.read_gen2_inp_resp,
                      0x02: p.vers_resp, 0x19: p.read_matrix_inp_resp}
    real = p.process_received_message

    class Plat:       # records what the framing layer hands over, then calls the real platform method
        def process_received_message(self, chain_serial, msg):
            frames.append(list(msg))
            real(chain_serial, msg)
    c = OPPSerialCommunicator.__new__(OPPSerialCommunicator)
    c.part_msg, c.chain_serial, c._lost_synch, c.platform = b"", "c", False, Plat()
    p.opp_connection["c"] = c
    cards_i, cards_m = {}, {}
    for a, v in init["inp"]:
        cards_i[a] = OPPInputCard("c", a, 0xffffffff, p.inp_dict, p.inp_addr_dict, p)
        cards_i[a].old_state = v
    for a, v in init["mat"]:
        cards_m[a] = OPPMatrixCard("c", a, p.inp_dict, p.matrix_inp_addr_dict, p)
        cards_m[a].old_state = v
    err = None
    try:
        for ch in chunks:
            c._parse_msg(bytes(ch))
    except Exception as e:      # noqa
        err = type(e).__name__
    return {"frames": frames, "events": events, "inp": [[a, cards_i[a].old_state] for a, _ in init["inp"]],
            "mat": [[a, cards_m[a].old_state] for a, _ in init["mat"]], "buf": list(c.part_msg),
            "lost": bool(c._lost_synch), "err": err}


def run_opp(case):
    ch = chunks_of(case)
    return {"split": _opp_run(ch, case["init"]), "whole": _opp_run([sum(ch, [])], case["init"])}


def coq_opp(case, out):
    o = out["split"]
    if o["err"]:
        return None
    amap = lambda kv: coqlist("(%s,%s)" % (zlit(k), zlit(v)) for k, v in kv)
    inp = "((%s, %s), %s)" % (amap(case["init"]["inp"]), amap(case["init"]["mat"]),
                              coqlist(zlist(c) for c in chunks_of(case)))
    exp = ("{| oo_frames := %s; oo_events := %s; oo_inp := %s; oo_mat := %s; oo_buf := %s; oo_lost := %s |}" %
           (coqlist(zlist(f) for f in o["frames"]),
            coqlist("(%s,%s,%s)" % (zlit(a), zlit(i), zlit(s)) for a, i, s in o["events"]),
            amap(o["inp"]), amap(o["mat"]), zlist(o["buf"]), blit(o["lost"])))
    return "(%s, %s)" % (inp, exp)


def expected_from_frames(frames, init):
    """the property's own predicate: state and events as determined by the CRC-valid delivered reports only"""
    inp = {a: v for a, v in init["inp"]}
    mat = {a: v for a, v in init["mat"]}
    events = []
    for f in frames:
        if len(f) == 7 and f[1] == 0x08 and crc8_ref(f[:6]) == f[6] and f[0] in inp:
            new = int.from_bytes(bytes(f[2:6]), "big")
            for i in range(32):
                if (inp[f[0]] ^ new) >> i & 1:
                    events.append([f[0], i, 0 if new >> i & 1 else 1])
            inp[f[0]] = new
        elif len(f) == 11 and f[1] == 0x19 and crc8_ref(f[:10]) == f[10] and f[0] in mat:
            new = int.from_bytes(bytes(f[2:10]), "big")
            for i in range(64):
                if (mat[f[0]] ^ new) >> i & 1:
                    events.append([f[0], 32 + i, 0 if new >> i & 1 else 1])
            mat[f[0]] = new
    return [[a, inp[a]] for a, _ in init["inp"]], [[a, mat[a]] for a, _ in init["mat"]], events


def contains_in_order(hay, needles):
    """needles appear in hay as a contiguous run"""
    if not needles:
        return True
    n = len(needles)
    return any(hay[i:i + n] == needles for i in range(len(hay) - n + 1))


def oracle_opp(case, out):
    fails = []
    a, b = out["split"], out["whole"]
    if a["err"] or b["err"]:
        fails.append({"sig": "opp-parser-exception", "what": "the OPP parser raised %s" % (a["err"] or b["err"])})
        return fails
    for k in ("frames", "events", "inp", "mat"):
        if a[k] != b[k]:
            fails.append({"sig": "opp-chunking-dependent", "what": "%s differ between split and unsplit delivery" % k})
            break
    inp, mat, events = expected_from_frames(a["frames"], case["init"])
    if inp != a["inp"] or mat != a["mat"] or events != a["events"]:
        fails.append({"sig": "opp-state-not-from-valid-reports",
                      "what": "switch state / switch events are not those determined by the CRC-valid reports delivered"})
    # resynchronisation
    segs = case["segs"]
    stream = [x for _, s in segs for x in s]
    i = 0
    while i < len(segs):
        kind = segs[i][0]
        if kind in ("flush", "noise", "corrupt", "trunc") or i == 0:
            j = i + 1 if kind in ("flush", "noise", "corrupt", "trunc") else 0
            run = []
            while j < len(segs) and segs[j][0] in ("valid", "eom"):
                if segs[j][0] == "valid":
                    run.append(segs[j][1])
                j += 1
            if kind == "flush" or (i == 0 and kind in ("valid", "eom")):
                if not contains_in_order(a["frames"], run):
                    fails.append({"sig": "opp-frame-lost-at-boundary",
                                  "what": "valid reports sent from a frame boundary / after an EOM flush were not all delivered"})
            elif kind != "flush" and len(run) > 2:
                if not contains_in_order(a["frames"], run[2:]):
                    if automaton_ref(stream) == a["frames"]:
                        fails.append({"sig": "opp-resync-header-lookalike",
                                      "what": "after line noise more than two following valid reports are lost: data bytes "
                                              "that look like an address/command pair keep the length framing out of step"})
                    else:
                        fails.append({"sig": "opp-resync-other", "what": "valid reports after noise are not decoded"})
            i = max(j, i + 1)
        else:
            i += 1
    return fails


def shrink_opp(case):
    segs = case["segs"]
    for i in range(len(segs)):
        yield {"segs": segs[:i] + segs[i + 1:], "cuts": [], "init": case["init"]}
    for i in range(len(segs)):
        yield {"segs": segs[:i] + segs[i + 1:], "cuts": case["cuts"], "init": case["init"]}
    cuts = case["cuts"]
    for i in range(len(cuts)):
        yield {"segs": segs, "cuts": cuts[:i] + cuts[i + 1:], "init": case["init"]}
    z = {"inp": [[a, 0] for a in INP_ADDRS], "mat": [[a, 0] for a in MAT_ADDRS]}
    if case["init"] != z:
        yield {"segs": segs, "cuts": cuts, "init": z}


def nontrivial_opp(case, out):
    return len(case["cuts"]) >= 1 and len(out["split"]["frames"]) >= 1


def describe_opp(case):
    kinds = sorted(set(k for k, _ in case["segs"]))
    n = len(case["cuts"])
    return "%s chunks=%s" % ("+".join(k[0] for k in kinds), "1" if n == 0 else "2-5" if n < 5 else ">5")


HDR_OPP = "From C14 Require Import Crc Model.\nDefinition run := opp_run.\nDefinition out_eqb := opp_out_eqb.\n"


# ================================================================================================
# delimiter readers: FAST parse_incoming_raw_bytes (CR) and PKONE _parse_msg ('E')
INVALID_UTF8 = list(range(0x80, 0xc2)) + list(range(0xf5, 0x100))     # never part of valid UTF-8
FAST_MSGS = ["ID:NET FP-CPU-2000  2.06", "SA:0E,2900000000000000000000000000", "-L:0B", "/L:0B", "WD:P", "XX:F", "SL:P",
             "DL:P", "NN:00,FP-I/O-3208-2   ,01.00,08,20,04,06,00,00,00,00", "A", "", "", "!B:02", "CH:2000,FF"]
PKONE_MSGS = ["PCN", "PCB0XP11F10", "PSA011000000000000000000000000000000000000X", "PSW0315", "PWD", "", "PLB", "XX"]


def gen_reader(rng, tier, i):
    which = rng.choice(["fast", "fast", "pkone"])
    delim = 13 if which == "fast" else 69
    pool = FAST_MSGS if which == "fast" else PKONE_MSGS
    msgs = []
    stream = []
    for _ in range(rng.randint(1, 8)):
        r = rng.random()
        if r < 0.8:
            m = list(rng.choice(pool).encode())
            if which == "pkone":
                m = [b for b in m if b != 69]
        elif r < 0.9:
            m = [rng.randrange(1, 128) for _ in range(rng.randint(0, 5))]
            m = [b for b in m if b != delim]
        else:
            m = list(rng.choice(pool).encode())
            m = [b for b in m if b != delim]
            for _ in range(rng.choice([1, 1, 2])):
                m.insert(rng.randrange(len(m) + 1), rng.choice(INVALID_UTF8))
        msgs.append(m)
        stream += m + [delim]
    if rng.random() < 0.3:
        stream = stream[:rng.randrange(len(stream) + 1)]
    cuts = sorted(set(rng.randrange(len(stream) + 1) for _ in range(rng.choice([0, 1, 2, 4, 8, 30]))))
    if rng.random() < 0.12:
        cuts = list(range(1, len(stream)))
    chunks, prev = [], 0
    for c in cuts + [len(stream)]:
        if c > prev:
            chunks.append(stream[prev:c])
            prev = c
    return {"which": which, "chunks": chunks}


def _mk_fast(record):
    import logging
    from unittest.mock import MagicMock
    from mpf.platforms.fast.communicators.base import FastSerialCommunicator

    class Rec(FastSerialCommunicator):
        def _dispatch_incoming_msg(self, msg):
            record(msg)
            return super()._dispatch_incoming_msg(msg)
    platform = MagicMock()
    platform.machine.is_shutting_down = False
    platform.debug = False
    c = Rec(platform, "net", {"debug": False, "watchdog": None, "port": ["x"], "baud": 1})
    c.log = logging.getLogger("c14.fast")
    c.log.disabled = True
    c.port_debug = False
    c.ignore_decode_errors = False          # the value connect() leaves behind
    return c


def _reader_run(which, chunks):
    seen = []
    dead = None
    if which == "fast":
        c = _mk_fast(lambda m: seen.append(list(m.encode()) if isinstance(m, str) else list(m)))
        feed = c.parse_incoming_raw_bytes
    else:
        import logging
        from unittest.mock import MagicMock
        from mpf.platforms.pkone.pkone_serial_communicator import PKONESerialCommunicator
        c = PKONESerialCommunicator.__new__(PKONESerialCommunicator)
        c.received_msg = b""
        c.messages_in_flight = 0
        c.max_messages_in_flight = 10
        c.read_task = None
        c.send_ready = MagicMock()
        c.log = logging.getLogger("c14.pkone")
        c.log.disabled = True
        c.platform = MagicMock()
        c.platform.process_received_message = lambda m: seen.append(list(m.encode()))
        feed = c._parse_msg
    for ch in chunks:
        try:
            feed(bytes(ch))
        except UnicodeDecodeError:
            dead = "UnicodeDecodeError"      # propagates out of _socket_reader: the read task ends
            break
        except Exception as e:               # noqa
            dead = type(e).__name__
            break
    return {"msgs": seen, "dead": dead, "buf": list(c.received_msg)}


def run_reader(case):
    return {"split": _reader_run(case["which"], case["chunks"]),
            "whole": _reader_run(case["which"], [sum(case["chunks"], [])])}


def coq_reader(case, out):
    o = out["split"]
    if o["dead"] not in (None, "UnicodeDecodeError"):
        return None
    d = 13 if case["which"] == "fast" else 69
    dead = o["dead"] is not None
    ign = "[]" if case["which"] == "fast" else coqlist([zlist(b"PWD")])
    return "(((%d, %s), %s), ((%s, %s), %s))" % (d, ign, coqlist(zlist(c) for c in case["chunks"]),
                                           coqlist(zlist(m) for m in o["msgs"]), blit(dead),
                                           zlist([] if dead else o["buf"]))


def oracle_reader(case, out):
    fails = []
    a, b = out["split"], out["whole"]
    if a["msgs"] != b["msgs"] or a["dead"] != b["dead"] or (a["dead"] is None and a["buf"] != b["buf"]):
        fails.append({"sig": "reader-chunking-dependent", "what": "decoded messages differ between split and unsplit delivery"})
    d = 13 if case["which"] == "fast" else 69
    stream = sum(case["chunks"], [])
    parts, cur = [], []
    for x in stream:
        if x == d:
            parts.append(cur)
            cur = []
        else:
            cur.append(x)
    complete = [m for m in parts if m and not (case["which"] == "pkone" and m == list(b"PWD"))]
    good = [m for m in complete if all(x < 128 for x in m)]
    if a["dead"] is None:
        if a["msgs"] != good or a["buf"] != cur:
            fails.append({"sig": "reader-wrong-messages", "what": "decoded messages are not the complete delimited messages of the stream"})
    else:
        # property: noise must not stop later valid messages from being decoded
        k = next(i for i, m in enumerate(complete) if not all(x < 128 for x in m))
        if a["dead"] == "UnicodeDecodeError" and a["msgs"] == complete[:k]:
            fails.append({"sig": "reader-dies-on-undecodable-byte",
                          "what": "a message containing a non-UTF-8 byte raises UnicodeDecodeError out of the %s read "
                                  "loop; the reader task ends and nothing received afterwards is decoded" % case["which"]})
        else:
            fails.append({"sig": "reader-died-other", "what": "reader raised %s" % a["dead"]})
    return fails


def shrink_reader(case):
    ch = case["chunks"]
    for i in range(len(ch)):
        yield {"which": case["which"], "chunks": ch[:i] + ch[i + 1:]}
    for i in range(len(ch) - 1):
        yield {"which": case["which"], "chunks": ch[:i] + [ch[i] + ch[i + 1]] + ch[i + 2:]}
    for i in range(len(ch)):
        if len(ch[i]) > 1:
            h = len(ch[i]) // 2
            yield {"which": case["which"], "chunks": ch[:i] + [ch[i][:h]] + ch[i + 1:]}
            yield {"which": case["which"], "chunks": ch[:i] + [ch[i][h:]] + ch[i + 1:]}


def nontrivial_reader(case, out):
    return len(case["chunks"]) > 1 and len(out["split"]["msgs"]) >= 1


def describe_reader(case):
    n = len(case["chunks"])
    return "%s chunks=%s" % (case["which"], "1" if n == 1 else "2-5" if n <= 5 else ">5")


HDR_READER = "From C14 Require Import Crc Model.\nDefinition run := reader_run.\nDefinition out_eqb := reader_out_eqb.\n"


# ================================================================================================
# FAST writer flow control
HEADERS = ["AA:", "AB:", "SA:", "DL:P", "WD:", "AA:P"]
RX_MSGS = ["AA:P", "AB:", "AB:00", "SA:01", "DL:P", "DL:F", "A", "XX:", "WD:P", "ZZ:1", "D", "AA"]


def gen_writer(rng, tier, i):
    ops = []
    m = 0
    for _ in range(rng.randint(1, 12)):
        r = rng.random()
        if r < 0.35:
            m += 1
            ops.append(["enq", m, None])
        elif r < 0.65:
            m += 1
            ops.append(["enq", m, rng.choice(HEADERS)])
        else:
            ops.append(["rx", rng.choice(RX_MSGS)])
    return {"ops": ops}


def run_writer(case):
    import asyncio
    writes = []
    c = _mk_fast(lambda m: None)

    class W:
        def write(self, msg):
            writes.append(bytes(msg))
    c.writer = W()
    loop = asyncio.new_event_loop()
    trace = []
    err = None
    try:
        task = loop.create_task(c._socket_writer())
        for op in case["ops"]:
            before = len(writes)
            if op[0] == "enq":
                if op[2] is None:
                    c.send_and_forget("M%d" % op[1])
                else:
                    c.send_with_confirmation("M%d" % op[1], op[2])
            else:
                c.parse_incoming_raw_bytes(op[1].encode() + b"\r")
            for _ in range(6):
                loop.run_until_complete(asyncio.sleep(0))
            new = [int(w[1:-1].decode()) for w in writes[before:]]
            trace.append([new, bool(c.pause_sending_flag.is_set())])
        if task.done() and task.exception():
            err = type(task.exception()).__name__
        task.cancel()
        try:
            loop.run_until_complete(task)
        except BaseException:   # noqa
            pass
    finally:
        loop.close()
    return {"trace": trace, "err": err, "left": c.send_queue.qsize()}


def coq_writer(case, out):
    if out["err"]:
        return None
    ops = coqlist("(Enq %d %s)" % (o[1], opt(o[2], lambda h: zlist(h.encode()))) if o[0] == "enq"
                  else "(Rx %s)" % zlist(o[1][:3].encode()) for o in case["ops"])
    exp = coqlist("(%s, %s)" % (zlist(n), blit(p)) for n, p in out["trace"])
    return "((false, %s), %s)" % (ops, exp)


def oracle_writer(case, out):
    fails = []
    if out["err"]:
        return [{"sig": "fast-writer-exception", "what": "writer task raised " + out["err"]}]
    enq = [o[1] for o in case["ops"] if o[0] == "enq"]
    written = [m for n, _ in out["trace"] for m in n]
    if written != enq[:len(written)]:
        fails.append({"sig": "fast-writer-order", "what": "messages written out of order"})
    conf = {o[1]: o[2] for o in case["ops"] if o[0] == "enq"}
    awaiting = None
    early = False
    for op, (new, _) in zip(case["ops"], out["trace"]):
        if op[0] == "rx" and awaiting is not None and awaiting.startswith(op[1][:3]):
            awaiting = None
        for m in new:
            if awaiting is not None:
                early = True
            if conf[m] is not None:
                awaiting = conf[m]
    if early:
        # exactly what the recorded defect produces: every message is written in the step it was queued
        immediate = all(new == ([op[1]] if op[0] == "enq" else []) for op, (new, _) in zip(case["ops"], out["trace"]))
        if immediate:
            fails.append({"sig": "fast-writer-does-not-wait",
                          "what": "a message is written while a confirmation is still awaited: _socket_writer awaits "
                                  "pause_sending_flag.wait() on an Event that is SET while paused, so it never blocks"})
        else:
            fails.append({"sig": "fast-writer-early-other", "what": "a message is written while a confirmation is awaited"})
    return fails


def shrink_writer(case):
    ops = case["ops"]
    for i in range(len(ops)):
        yield {"ops": ops[:i] + ops[i + 1:]}


def nontrivial_writer(case, out):
    return any(o[0] == "enq" and o[2] for o in case["ops"]) and len(case["ops"]) > 2


HDR_WRITER = "From C14 Require Import Crc Model.\nDefinition run := writer_run.\nDefinition out_eqb := writer_out_eqb.\n"


# ================================================================================================
# FAST send_and_wait_for_response_processed with a lost response (oracle only; not modelled)
def gen_retry(rng, tier, i):
    return {"timeout": rng.choice([1, 2, 4]), "max_retries": rng.choice([0, 1, 2, 3]),
            "respond_after": rng.choice([None, None, None, 0.5, 3]), "horizon": 64}


def run_retry(case):
    import asyncio
    from mpf.tests.loop import TimeTravelLoop
    writes = []
    loop = TimeTravelLoop()
    asyncio.set_event_loop(loop)
    try:
        c = _mk_fast(lambda m: None)

        class W:
            def write(self, msg):
                writes.append([round(loop.time() * 1000), bytes(msg).decode()])
        c.writer = W()
        c.message_processors["QQ:"] = lambda msg: c.done_processing_msg_response()
        wt = loop.create_task(c._socket_writer())
        done = {"t": None, "exc": None}

        async def caller():
            try:
                await c.send_and_wait_for_response_processed("QQ:", "QQ:", timeout=case["timeout"],
                                                             max_retries=case["max_retries"])
                done["t"] = round(loop.time() * 1000)
            except Exception as e:     # noqa
                done["exc"] = type(e).__name__
                done["t"] = round(loop.time() * 1000)
        ct = loop.create_task(caller())
        if case["respond_after"] is not None:
            loop.call_later(case["respond_after"], lambda: c.parse_incoming_raw_bytes(b"QQ:P\r"))
        loop.run_until_complete(asyncio.sleep(case["horizon"]))
        res = {"writes": writes, "done": done["t"], "exc": done["exc"]}
        for t in (wt, ct):
            t.cancel()
            try:
                loop.run_until_complete(t)
            except BaseException:   # noqa
                pass
        return res
    finally:
        asyncio.set_event_loop(None)
        loop.close(ignore_running_tasks=True)


def oracle_retry(case, out):
    n = len([w for w in out["writes"] if w[1] == "QQ:\r"])
    if case["respond_after"] is not None and case["respond_after"] < case["timeout"]:
        if n != 1 or out["done"] is None:
            return [{"sig": "fast-response-in-time-mishandled", "what": "a response that arrived in time: %r" % out}]
        return []
    if case["respond_after"] is None:
        # lost response: the property wants 1 + max_retries transmissions and then an end to the wait
        if n == 1 and out["done"] is None and out["exc"] is None:
            return [{"sig": "fast-lost-response-not-retried",
                     "what": "send_and_wait_for_response_processed never re-sends after its timeout and then waits on "
                             "done_waiting for ever (the timeout only guards the wait for the previous response)"}]
        if n == 1 + case["max_retries"] and out["done"] is not None:
            return []
        return [{"sig": "fast-retry-other", "what": "lost response: %d transmissions, caller finished=%r" % (n, out["done"])}]
    # late response
    if n == 1 and out["done"] is not None:
        return [] if case["max_retries"] == 0 else [{"sig": "fast-lost-response-not-retried",
                                                     "what": "late response: no retransmission after the timeout"}]
    return []



# ================================================================================================
# FAST Neuron switch reports: SA: snapshots and -L:/L: events through the REAL FastNetNeuronCommunicator
# (parse_incoming_raw_bytes -> _dispatch_incoming_msg -> _process_sa / _process_switch_closed/_open), the real
# FastHardwarePlatform and the real SwitchController, booted once per worker exactly like mpf/tests/test_Fast_Neuron.py
_FS = {}
FS_NUMS = [0, 1, 2, 3, 4, 5, 6, 7, 8, 9, 10, 11, 40, 56]       # configured in tests/machine_files/fast/config/neuron.yaml
SA_BYTES = 14


def fastsw_init():
    import logging
    logging.disable(logging.CRITICAL)
    from mpf.tests.test_Fast_Neuron import TestFastNeuron

    class R(TestFastNeuron):
        def runTest(self):
            pass
    r = R("runTest")
    r.setUp()
    r.expected_duration = 1e9
    if r.startup_error:
        raise RuntimeError("FAST neuron rig did not boot: %r" % (r.startup_error,))
    p = r.machine.hardware_platforms["fast"]
    _FS["rig"] = r
    _FS["platform"] = p
    _FS["comm"] = p.serial_connections["net"]
    _FS["sws"] = sorted([sw for sw in r.machine.switches.values() if sw.platform == p], key=lambda sw: sw.hw_switch.number)


def gen_fastsw(rng, tier, i):
    ops = []
    snaps = []
    for _ in range(rng.randint(2, 10)):
        r = rng.random()
        if r < 0.30:
            if snaps and rng.random() < 0.5:
                b = rng.choice(snaps)                      # a snapshot identical to an earlier one (re-sync)
            else:
                b = [rng.choice([0, 0, 0xff, rng.randrange(256)]) for _ in range(SA_BYTES)]
                b[0] = rng.randrange(256)
                b[1] = rng.randrange(16)
                if rng.random() < 0.15:
                    b = [0] * SA_BYTES                     # equal to the baseline snapshot every case starts from
            snaps.append(b)
            ops.append(["sa", b])
        else:
            n = rng.choice(FS_NUMS + FS_NUMS + [12, 39, 80, 103])
            ops.append(["closed" if rng.random() < 0.5 else "open", n])
    if rng.random() < 0.3 and snaps:
        ops.append(["sa", snaps[0]])
    return {"ops": ops}


def _fs_states():
    return [int(sw.state) for sw in _FS["sws"]]


def run_fastsw(case):
    if "rig" not in _FS:
        fastsw_init()
    comm, sws = _FS["comm"], _FS["sws"]
    # make the case self-contained (the machine is reused): an all-zero snapshot, then one event per switch that
    # forces the state that snapshot implies.  Afterwards both the SwitchController and any snapshot cache a changed
    # implementation might keep are in a state that does not depend on earlier cases.
    try:
        comm.parse_incoming_raw_bytes(b"SA:%02X,%s\r" % (SA_BYTES, b"00" * SA_BYTES))
        for sw in sws:
            comm.parse_incoming_raw_bytes(b"%sL:%02X\r" % (b"-" if sw.invert else b"/", sw.hw_switch.number))
    except Exception as e:          # noqa
        return {"init": [], "trace": [], "err": "baseline: %s: %s" % (type(e).__name__, e), "final": [], "hw": []}
    init = [[sw.hw_switch.number, bool(sw.invert), int(sw.state)] for sw in sws]
    trace, err = [], None
    for op in case["ops"]:
        if op[0] == "sa":
            msg = "SA:%02X,%s" % (len(op[1]), bytes(op[1]).hex().upper())
        else:
            msg = "%sL:%02X" % ("-" if op[0] == "closed" else "/", op[1])
        try:
            comm.parse_incoming_raw_bytes(msg.encode() + b"\r")
        except Exception as e:      # noqa
            err = "%s: %s" % (type(e).__name__, e)
            break
        trace.append(_fs_states())
    # the loop is deliberately NOT run: switch state is updated synchronously by the handlers, and running the
    # queued switch events would start games / fire coils against the scripted mock board.  Drop what was queued.
    try:
        _FS["rig"].machine.events.event_queue.clear()
    except Exception:               # noqa
        pass
    hw = [[sw.hw_switch.number, int(sw.hw_state)] for sw in sws]
    return {"init": init, "trace": trace, "err": err, "final": _fs_states(), "hw": hw}


def _bits(b):
    return [(byte >> i) & 1 for byte in b for i in range(8)]


def coq_fastsw(case, out):
    if out["err"]:
        return None
    m = coqlist("(%d, (%s, %d))" % (n, blit(inv), st) for n, inv, st in out["init"])
    ops = coqlist("(FSnap %s)" % zlist(_bits(o[1])) if o[0] == "sa" else
                  "(%s %d)" % ("FClosed" if o[0] == "closed" else "FOpen", o[1]) for o in case["ops"])
    return "((%s, %s), %s)" % (m, ops, coqlist(zlist(t) for t in out["trace"]))


def oracle_fastsw(case, out):
    if out["err"]:
        return [{"sig": "fast-switch-report-exception", "what": "handling a switch report raised " + out["err"]}]
    want = {n: st for n, inv, st in out["init"]}
    inv = {n: i for n, i, st in out["init"]}
    order = [n for n, _, _ in out["init"]]
    stale_only = True
    bad = None
    last_snap_equal_earlier = False
    seen = []
    for k, (op, got) in enumerate(zip(case["ops"], out["trace"])):
        if op[0] == "sa":
            bits = _bits(op[1])
            for n in order:
                want[n] = (1 if inv[n] else 0) ^ bits[n]
            last_snap_equal_earlier = op[1] in seen
            seen.append(op[1])
        elif op[1] in want:
            want[op[1]] = 1 if op[0] == "closed" else 0
        if got != [want[n] for n in order] and bad is None:
            bad = (k, op[0])
    if out["final"] != [want[n] for n in order] and bad is None:
        bad = (len(case["ops"]), "end")
    if bad is not None:
        return [{"sig": "fast-switch-state-not-last-report",
                 "what": "after report #%d (%s) the SwitchController state differs from the last report per switch"
                         % bad}]
    # the hardware-side state kept on the switch objects must agree with the logical state
    for (n, hw), st in zip(out["hw"], out["final"]):
        if hw != ((1 if inv[n] else 0) ^ st):
            return [{"sig": "fast-switch-hw-state-inconsistent", "what": "switch %d: hw_state %d, state %d" % (n, hw, st)}]
    return []


def shrink_fastsw(case):
    ops = case["ops"]
    for i in range(len(ops)):
        yield {"ops": ops[:i] + ops[i + 1:]}


def nontrivial_fastsw(case, out):
    kinds = set(o[0] for o in case["ops"])
    return "sa" in kinds and len(kinds) > 1


def describe_fastsw(case):
    sas = [o[1] for o in case["ops"] if o[0] == "sa"]
    rep = any(sas[i] in sas[:i] for i in range(len(sas)))
    return "snapshots=%d%s" % (len(sas), " repeated" if rep else "")


HDR_FASTSW = "From C14 Require Import Crc Model.\nDefinition run := fastsw_run.\nDefinition out_eqb := fastsw_out_eqb.\n"

SUITES = [
    Suite("opp", gen_opp, run_opp, HDR_OPP, coq_opp, oracle_opp, shrink_opp, nontrivial_opp,
          {"quick": 2000, "thorough": 120000}, describe=describe_opp, shard=200),
    Suite("reader", gen_reader, run_reader, HDR_READER, coq_reader, oracle_reader, shrink_reader, nontrivial_reader,
          {"quick": 1500, "thorough": 60000}, describe=describe_reader, shard=400),
    Suite("writer", gen_writer, run_writer, HDR_WRITER, coq_writer, oracle_writer, shrink_writer, nontrivial_writer,
          {"quick": 800, "thorough": 30000}, shard=400),
    Suite("fastsw", gen_fastsw, run_fastsw, HDR_FASTSW, coq_fastsw, oracle_fastsw, shrink_fastsw, nontrivial_fastsw,
          {"quick": 1200, "thorough": 40000}, worker_init=fastsw_init, describe=describe_fastsw, shard=300),
    Suite("retry", gen_retry, run_retry, None, None, oracle_retry, None, None,
          {"quick": 40, "thorough": 400}),
]
