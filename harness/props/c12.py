"""C12 — Config validation returns well-typed complete configs or rejects.

Round 3: second model layer coq/C12/Ext.v (color / color_or_token / kivycolor with the named colours TRANSLATED from
rgb_color.py, int_from_hex, dict(k:v), subconfig(..) and the RECURSIVE _validate_config with the unknown-key check at every
depth; suites `item` (now through the recursive model) and `deep`) and coq/C12/Player.v (config-player entry names; suite
`player`).

(T) Util.string_to_ms / string_to_secs are TRANSLATED from the Python source (ast) into coq/C12/gen/Time.v on
    every run (suffix chain order, slice lengths, multipliers, int/float/round calls), fail-closed.
(H) The scalar validators (incl. template_* and gain), item types (single/list/set/dict/event_handler, event strings with
    {conditions}), defaults, unknown-key rejection, the section loop, build_spec merge + cache and histories of validations
    against one ConfigValidator are a hand model (coq/C12/Model.v) tied by correspondence against the real
    ConfigValidator of a booted machine.
"""
import ast
import copy
import json
import math
import os
import re
from fractions import Fraction

from vlib import Suite, zlist, zlit, coqlist, blit

ID = "C12"
READY = True
DESIGN_REF = "DESIGN.md section 3, C12"

# ==================================================================================================
# (T) translator: mpf/core/utility_functions.py  ->  coq/C12/gen/Time.v


class Untranslatable(Exception):
    pass


def _find_method(tree, cls, name):
    for node in tree.body:
        if isinstance(node, ast.ClassDef) and node.name == cls:
            for f in node.body:
                if isinstance(f, ast.FunctionDef) and f.name == name:
                    return f
    raise Untranslatable("translate:utility_functions.py:%s.%s not found" % (cls, name))


def _body_wo_doc(f):
    b = list(f.body)
    if b and isinstance(b[0], ast.Expr) and isinstance(getattr(b[0], "value", None), ast.Constant) \
            and isinstance(b[0].value.value, str):
        b = b[1:]
    return b


def _d(node):
    return ast.dump(node, annotate_fields=True, include_attributes=False)


def _expect(node, src, what):
    want = ast.parse(src).body[0]
    if _d(node) != _d(want):
        raise Untranslatable("translate:utility_functions.py:%s: expected `%s`, found `%s`" %
                             (what, src, ast.unparse(node)))


def _coq_str(s):
    return zlist([ord(c) for c in s])


def _tr_expr(e, var):
    """Python expression over the string variable -> (kind, gallina).  kinds: str, int, float."""
    if isinstance(e, ast.Name) and e.id == var:
        return "str", "s"
    if isinstance(e, ast.Subscript) and isinstance(e.value, ast.Name) and e.value.id == var \
            and isinstance(e.slice, ast.Slice) and e.slice.lower is None and e.slice.step is None \
            and isinstance(e.slice.upper, ast.UnaryOp) and isinstance(e.slice.upper.op, ast.USub) \
            and isinstance(e.slice.upper.operand, ast.Constant) and type(e.slice.upper.operand.value) is int \
            and e.slice.upper.operand.value >= 1:
        return "str", "(drop_last %d s)" % e.slice.upper.operand.value
    if isinstance(e, ast.Call) and isinstance(e.func, ast.Name) and len(e.args) == 1 and not e.keywords:
        k, g = _tr_expr(e.args[0], var)
        fn = e.func.id
        if fn == "int":
            return "int", {"str": "(e_int_of_str %s)", "float": "(r_int %s)", "int": "(r_id %s)"}[k] % g
        if fn == "float" and k == "str":
            return "float", "(e_float_of_str %s)" % g
        if fn == "round" and k == "float":
            return "int", "(r_round %s)" % g
    if isinstance(e, ast.BinOp) and isinstance(e.op, ast.Mult) and isinstance(e.right, ast.Constant) \
            and type(e.right.value) is int and e.right.value > 0:
        k, g = _tr_expr(e.left, var)
        if k == "float":
            return "float", "(r_fmul %s %d)" % (g, e.right.value)
    raise Untranslatable("translate:utility_functions.py:string_to_ms: unsupported expression `%s`" % ast.unparse(e))


def _tr_cond(c, var):
    if isinstance(c, ast.BoolOp) and isinstance(c.op, ast.Or):
        return "(" + " || ".join(_tr_cond(x, var) for x in c.values) + ")"
    if isinstance(c, ast.Call) and isinstance(c.func, ast.Attribute) and c.func.attr == "endswith" \
            and isinstance(c.func.value, ast.Name) and c.func.value.id == var and len(c.args) == 1 \
            and not c.keywords and isinstance(c.args[0], ast.Constant) and isinstance(c.args[0].value, str) \
            and c.args[0].value and all(ord(ch) < 128 for ch in c.args[0].value):
        return "(ends_with s %s)" % _coq_str(c.args[0].value)
    raise Untranslatable("translate:utility_functions.py:string_to_ms: unsupported condition `%s`" % ast.unparse(c))


def translate_time(src):
    tree = ast.parse(src)
    f = _find_method(tree, "Util", "string_to_ms")
    if [a.arg for a in f.args.args] != ["time_string"]:
        raise Untranslatable("translate:utility_functions.py:string_to_ms: signature changed")
    body = _body_wo_doc(f)
    if len(body) < 4:
        raise Untranslatable("translate:utility_functions.py:string_to_ms: body too short")
    _expect(body[0], "if time_string is None:\n    return 0", "string_to_ms[None]")
    _expect(body[1], "if isinstance(time_string, (int, float)):\n    return int(time_string)", "string_to_ms[number]")
    _expect(body[2], "time_string = str(time_string).upper()", "string_to_ms[upper]")
    lines = []
    for st in body[3:-1]:
        if not (isinstance(st, ast.If) and not st.orelse and len(st.body) == 1 and isinstance(st.body[0], ast.Return)
                and st.body[0].value is not None):
            raise Untranslatable("translate:utility_functions.py:string_to_ms: unsupported statement `%s`" %
                                 ast.unparse(st))
        k, g = _tr_expr(st.body[0].value, "time_string")
        if k != "int":
            raise Untranslatable("translate:utility_functions.py:string_to_ms: branch does not return an int: `%s`" %
                                 ast.unparse(st))
        lines.append("  if %s then %s else" % (_tr_cond(st.test, "time_string"), g))
    last = body[-1]
    if not (isinstance(last, ast.Return) and last.value is not None):
        raise Untranslatable("translate:utility_functions.py:string_to_ms: last statement is not a return")
    k, g = _tr_expr(last.value, "time_string")
    if k != "int":
        raise Untranslatable("translate:utility_functions.py:string_to_ms: fall-through does not return an int")
    lines.append("  %s." % g)

    f2 = _find_method(tree, "Util", "string_to_secs")
    b2 = _body_wo_doc(f2)
    if len(b2) != 3:
        raise Untranslatable("translate:utility_functions.py:string_to_secs: shape changed")
    _expect(b2[0], "time_string = str(time_string)", "string_to_secs[str]")
    _expect(b2[1], "if not any(c.isalpha() for c in time_string):\n    time_string = ''.join((time_string, 's'))",
            "string_to_secs[append]")
    _expect(b2[2], "return Util.string_to_ms(time_string) / 1000.0", "string_to_secs[div]")

    out = ["(* GENERATED on every run by harness/props/c12.py translate() from mpf/core/utility_functions.py",
           "   (Util.string_to_ms, Util.string_to_secs).  Do not edit. *)",
           "From Common Require Import Prelude.",
           "From C12 Require Import Base.",
           "Open Scope Z_scope.",
           "",
           "(* the chain of suffix tests after `time_string = str(time_string).upper()` *)",
           "Definition string_to_ms_chain (s : str) : result Z :="] + lines + [
           "",
           "Definition string_to_ms (v : yv) : result Z :=",
           "  match v with",
           "  | YNone => Ok 0                                  (* if time_string is None: return 0 *)",
           "  | YBool b => Ok (if b then 1 else 0)             (* isinstance(x, (int, float)): int(x) *)",
           "  | YInt z => Ok z",
           "  | YFloat f _ => py_int_of_fl f",
           "  | other => match py_str other with",
           "             | Some s => string_to_ms_chain (upper s)",
           "             | None => Err EValue                  (* str(list/dict) ends with ] or }: int() fails *)",
           "             end",
           "  end.",
           "",
           "Definition string_to_secs (v : yv) : result fl :=",
           "  match py_str v with",
           "  | None => Err EValue                             (* str(list/dict) starts with [ or {: int()/float() fail *)",
           "  | Some s =>",
           "      let s' := if existsb is_alpha s then s else s ++ [115] in",
           "      bindR (string_to_ms (YStr s')) (fun ms => Ok (fdiv_pos (fl_of_Z ms) 1000))",
           "  end.",
           ""]
    return "\n".join(out)


# the validator table: name -> method, checked against the source so that the hand model's dispatch is current
EXPECTED_VALIDATORS = {
    "str": "_validate_type_str", "event_posted": "_validate_type_str", "event_handler": "_validate_type_str",
    "lstr": "_validate_type_lstr", "float": "_validate_type_float",
    "float_or_token": "or_token:_validate_type_float", "int": "_validate_type_int",
    "int_or_token": "or_token:_validate_type_int", "num": "_validate_type_num",
    "num_or_token": "or_token:_validate_type_num", "bool": "_validate_type_bool",
    "bool_or_token": "or_token:_validate_type_bool", "boolean": "_validate_type_bool", "ms": "_validate_type_ms",
    "ms_or_token": "or_token:_validate_type_ms", "secs": "_validate_type_secs",
    "secs_or_token": "or_token:_validate_type_secs", "list": "_validate_type_list", "dict": "_validate_type_dict",
    "bool_int": "_validate_type_bool_int", "pow2": "_validate_type_pow2", "enum": "_validate_type_enum",
    "machine": "_validate_type_machine",
    "template_int": "_validate_type_template_int", "template_float": "_validate_type_template_float",
    "template_float_or_token": "or_token:_validate_type_template_float", "template_bool": "_validate_type_template_bool",
    "template_secs": "_validate_type_template_secs", "template_ms": "_validate_type_template_ms",
    "template_str": "_validate_type_template_str", "gain": "_validate_type_gain",
    "color": "_validate_type_color", "color_or_token": "or_token:_validate_type_color",
    "kivycolor": "_validate_type_kivycolor", "int_from_hex": "_validate_type_int_from_hex",
    "subconfig": "_validate_type_subconfig",
}


def check_validator_table(src):
    tree = ast.parse(src)
    init = _find_method(tree, "ConfigValidator", "__init__")
    table = None
    for st in init.body:
        if isinstance(st, ast.Assign) and len(st.targets) == 1 and isinstance(st.targets[0], ast.Attribute) \
                and st.targets[0].attr == "validator_list" and isinstance(st.value, ast.Dict):
            table = {}
            for k, v in zip(st.value.keys, st.value.values):
                if not isinstance(k, ast.Constant):
                    raise Untranslatable("translate:config_validator.py:validator_list: non-constant key")
                if isinstance(v, ast.Attribute):
                    table[k.value] = v.attr
                elif isinstance(v, ast.Call) and isinstance(v.func, ast.Attribute) and \
                        v.func.attr == "_validate_type_or_token" and len(v.args) == 1 and \
                        isinstance(v.args[0], ast.Attribute):
                    table[k.value] = "or_token:" + v.args[0].attr
                else:
                    table[k.value] = "?" + ast.unparse(v)
    if table is None:
        raise Untranslatable("translate:config_validator.py:validator_list not found")
    for k, v in EXPECTED_VALIDATORS.items():
        if table.get(k) != v:
            raise Untranslatable("translate:config_validator.py:validator_list[%r] is %r, the model dispatches to %r" %
                                 (k, table.get(k), v))
    return sorted(table)


def translate_colors(src):
    """NAMED_RGB_COLORS = dict(name=(r, g, b), ...) of mpf/core/rgb_color.py -> Gallina association list"""
    tree = ast.parse(src)
    call = None
    for node in tree.body:
        if isinstance(node, ast.Assign) and any(isinstance(t, ast.Name) and t.id == "NAMED_RGB_COLORS" for t in node.targets):
            call = node.value
    if not (isinstance(call, ast.Call) and isinstance(call.func, ast.Name) and call.func.id == "dict" and not call.args):
        raise Untranslatable("translate:rgb_color.py:NAMED_RGB_COLORS is not a dict(name=(r, g, b), ...) literal")
    rows = []
    for kw in call.keywords:
        v = kw.value
        if kw.arg is None or not ascii_ok(kw.arg) or not isinstance(v, ast.Tuple) or len(v.elts) != 3 or \
                not all(isinstance(e, ast.Constant) and type(e.value) is int for e in v.elts):
            raise Untranslatable("translate:rgb_color.py:NAMED_RGB_COLORS[%r] is not a tuple of three int constants" % kw.arg)
        rows.append("(%s, (%s, %s, %s))" % ((_coq_str(kw.arg),) + tuple(zlit(e.value) for e in v.elts)))
    return "\n".join(["(* GENERATED on every run by harness/props/c12.py translate() from mpf/core/rgb_color.py",
                      "   (NAMED_RGB_COLORS).  Do not edit. *)",
                      "From Common Require Import Prelude.",
                      "Open Scope Z_scope.",
                      "Definition named_colors : list (list Z * (Z * Z * Z)) := [",
                      ";\n".join("  " + r for r in rows), "]."]) + "\n"


def _write_if_changed(path, text):
    old = open(path).read() if os.path.exists(path) else None
    if old != text:
        with open(path, "w") as f:
            f.write(text)


def translate(repo, gendir):
    os.makedirs(gendir, exist_ok=True)
    path = os.path.join(gendir, "Time.v")
    cpath = os.path.join(gendir, "Colors.v")
    try:
        src = open(os.path.join(repo, "mpf/core/utility_functions.py")).read()
        text = translate_time(src)
        names = check_validator_table(open(os.path.join(repo, "mpf/core/config_validator.py")).read())
        text += "\n(* validator names of ConfigValidator.validator_list (config_validator.py), for reference *)\n"
        text += "Definition all_validator_names : list str := %s.\n" % coqlist(_coq_str(n) for n in names)
        ctext = translate_colors(open(os.path.join(repo, "mpf/core/rgb_color.py")).read())
    except Exception:
        # fail closed: no stale generated model may survive a failed translation
        for q in (path, cpath):
            if os.path.exists(q):
                os.unlink(q)
        raise
    _write_if_changed(path, text)
    _write_if_changed(cpath, ctext)


# ==================================================================================================
# values: tagged JSON  <->  Python  <->  Gallina
TEMPLATE_CLASSES = ("IntTemplate", "FloatTemplate", "BoolTemplate", "StringTemplate", "TextTemplate")


def tagv(v):
    if v is None:
        return ["n"]
    if isinstance(v, bool):
        return ["b", v]
    if isinstance(v, int):
        return ["i", str(v)]
    if isinstance(v, float):
        return ["f", repr(v)]
    if isinstance(v, str):
        return ["s", v]
    if isinstance(v, list):
        return ["l", [tagv(x) for x in v]]
    if isinstance(v, dict):
        return ["d", [[tagv(k), tagv(x)] for k, x in v.items()]]
    if isinstance(v, (set, frozenset)):
        return ["set", sorted((tagv(x) for x in v), key=lambda t: json.dumps(t))]
    if isinstance(v, tuple):
        return ["tup", [tagv(x) for x in v]]
    cn = type(v).__name__
    if cn == "RuntimeToken":
        return ["tok", v.token]
    if cn == "NativeTypeTemplate":
        return ["nat", tagv(v.value)]
    if cn in TEMPLATE_CLASSES:
        return ["tpl", cn, v.text]
    coll = getattr(type(v), "collection", None)
    if coll and hasattr(v, "name"):
        return ["dev", coll, v.name]
    return ["other", cn]


def untag(t):
    k = t[0]
    if k == "n":
        return None
    if k == "b":
        return bool(t[1])
    if k == "i":
        return int(t[1])
    if k == "f":
        return float(t[1])
    if k == "s":
        return t[1]
    if k == "l":
        return [untag(x) for x in t[1]]
    if k == "d":
        return {untag(a): untag(b) for a, b in t[1]}
    raise ValueError(t)


def cstr(s):
    return zlist([ord(c) for c in s]) if s else "(@nil Z)"


def ascii_ok(s):
    return all(ord(c) < 128 for c in s)


class OutOfDomain(Exception):
    pass


TWO1000 = Fraction(2) ** 1000


def cfl(x):
    if x != x:
        return "FNaN"
    if x in (float("inf"), float("-inf")):
        return "(FInf %s)" % blit(x < 0)
    n, d = x.as_integer_ratio()
    if n != 0 and not (1 / TWO1000 <= abs(Fraction(n, d)) < TWO1000):
        raise OutOfDomain("float magnitude")
    return "(FNum (Qmake %s %d))" % (zlit(n), d)


def cyv(t):
    k = t[0]
    if k == "n":
        return "YNone"
    if k == "b":
        return "(YBool %s)" % blit(t[1])
    if k == "i":
        z = int(t[1])
        if abs(z) >= 2 ** 1000:
            raise OutOfDomain("int magnitude")
        return "(YInt %s)" % zlit(z)
    if k == "f":
        x = float(t[1])
        return "(YFloat %s %s)" % (cfl(x), cstr(repr(x)))
    if k == "s":
        if not ascii_ok(t[1]):
            raise OutOfDomain("non-ascii")
        return "(YStr %s)" % cstr(t[1])
    if k == "l" or k == "tup":       # a tuple (color) is written as a list in the model; the oracle sees the tuple
        return "(YList %s)" % coqlist(cyv(x) for x in t[1])
    if k == "d":
        return "(YDict %s)" % coqlist("(%s,%s)" % (cyv(a), cyv(b)) for a, b in t[1])
    if k == "set":
        return "(YSet %s)" % coqlist(cyv(x) for x in t[1])
    if k == "tok":
        return "(YToken %s)" % cstr(t[1])
    if k == "nat":
        return "(YNative %s)" % cyv(t[1])
    if k == "tpl":
        if not ascii_ok(t[2]):
            raise OutOfDomain("non-ascii")
        return "(YTemplate %s %s)" % (cstr(t[1]), cstr(t[2]))
    if k == "dev":
        return "(YDev (@nil Z) %s)" % cstr(t[2])     # compared by name (a device can be in several collections)
    raise OutOfDomain("value kind " + k)


ERRS = {"ValueError": "EValue", "TypeError": "EType", "OverflowError": "EOverflow", "AttributeError": "EAttr",
        "AssertionError": "EAssert", "IndexError": "EIndex", "KeyError": "EKey"}


def cerr(e):
    if e.startswith("CFE"):
        return "(ECfg %s)" % e[3:]
    if e in ERRS:
        return ERRS[e]
    raise OutOfDomain("error class " + e)


def err_name(e):
    from mpf.exceptions.config_file_error import ConfigFileError
    if isinstance(e, ConfigFileError):
        return "CFE%d" % e.get_error_no()
    return type(e).__name__


def has_text(t, pred):
    """does any string inside the tagged value satisfy pred?"""
    k = t[0]
    if k == "s":
        return pred(t[1])
    if k == "l" or k == "set":
        return any(has_text(x, pred) for x in t[1])
    if k == "d":
        return any(has_text(a, pred) or has_text(b, pred) for a, b in t[1])
    return False


def numeric_text_in_domain(s):
    """numeric literals the float model covers: |exponent| <= 400, at most 400 digits, magnitude in range"""
    u = s.strip()
    try:
        x = float(u)
    except ValueError:
        # may still be "<number><suffix>"; the model parses what the code parses
        m = re.match(r"^\s*[+-]?[0-9_.]*(?:[eE][+-]?[0-9_]+)?", s)
        u = m.group(0) if m else ""
    digits = sum(c.isdigit() for c in s)
    if digits > 100:
        return False
    for m in re.finditer(r"[eE][+-]?([0-9_]+)", s):
        try:
            if int(m.group(1).replace("_", "")) > 180:
                return False
        except ValueError:
            pass
    return True


# ==================================================================================================
# suite 1: time strings (T model)
SUFFIXES = ["ms", "msec", "s", "sec", "m", "h", "d"]
UNIT_MS = {"ms": 1, "msec": 1, "s": 1000, "sec": 1000, "m": 60000, "h": 3600000, "d": 86400000}


def rcase(rng, s):
    r = rng.random()
    if r < 0.5:
        return s
    if r < 0.75:
        return s.upper()
    return "".join(c.upper() if rng.random() < 0.5 else c for c in s)


def rdecimal(rng):
    r = rng.random()
    if r < 0.25:
        return str(rng.choice([0, 1, 2, 5, 10, 59, 60, 100, 200, 999, 1000, 1500, 86400, rng.randrange(0, 100000)]))
    if r < 0.65:
        n = rng.randrange(0, 3000000)
        return "%d.%03d" % (n // 1000, n % 1000)
    if r < 0.75:
        return "%d.%d" % (rng.randrange(0, 100), rng.randrange(0, 100))
    if r < 0.82:
        return "%d.%s" % (rng.randrange(0, 50), "".join(rng.choice("0123456789") for _ in range(rng.randrange(4, 9))))
    if r < 0.86:
        return rng.choice([".5", "5.", "1e3", "1E-3", "2.5e2", "1_000", "1_0.5", "0.29", "1.001", "8.2", "0.0005", "1e-05",
                           "4.35", "1.005", "2.675", "1e15", "123456789.125", "1e300", "1e-300", "00012"])
    if r < 0.90:
        return rng.choice(["inf", "-inf", "nan", "infinity", "+5", "-5", "-1.5", "-0.0005", " 5", "5 ", " 1.5 ", "\t2"])
    if r < 0.95:
        return rng.choice(["", ".", "e5", "1e", "1..2", "1_", "_1", "1__0", "1 0", "0x10", "1,5", "--1", "1e5.5", "abc",
                           "1.5.", "1e+", "٣"])
    return str(rng.randrange(0, 10 ** rng.randrange(1, 18)))


def gen_time(rng, tier, i):
    r = rng.random()
    if r < 0.78:
        num = rdecimal(rng)
        suf = rcase(rng, rng.choice(SUFFIXES)) if rng.random() < 0.85 else \
            rng.choice(["", "", " s", "s ", "x", "ss", "ms ", "msecs", "secs", "min", "hr", "µs", "ſ"])
        v = num + suf
        if rng.random() < 0.05:
            v = " " + v
        return {"v": ["s", v]}
    if r < 0.84:
        return {"v": ["i", str(rng.choice([0, 1, -1, 5, 200, 1000, 2 ** 53 + 1, 10 ** 20, -7, rng.randrange(-10 ** 6, 10 ** 6)]))]}
    if r < 0.92:
        return {"v": ["f", repr(rng.choice([0.0, -0.0, 1.5, 2.999, -2.5, 1e-5, 0.0001, 1e16, 1e22, 123.456, float("nan"),
                                            float("inf"), float("-inf"), 0.1, rng.uniform(0, 5000), 5e-324, 1e308]))]}
    if r < 0.95:
        return {"v": ["b", rng.random() < 0.5]}
    if r < 0.97:
        return {"v": ["n"]}
    if r < 0.985:
        return {"v": ["s", rng.choice(["none", "None", "", "s", "ms", "msec", "sec", "d", "M", "true", "1e-05"])]}
    return {"v": rng.choice([["l", []], ["l", [["i", "1"]]], ["d", []], ["l", [["s", "1s"]]]])}


def _outcome(f, *a):
    try:
        return {"ok": tagv(f(*a))}
    except BaseException as e:     # noqa
        if isinstance(e, (KeyboardInterrupt, SystemExit)):
            raise
        from vlib import CaseTimeout
        if isinstance(e, CaseTimeout):
            raise
        return {"err": err_name(e)}


def run_time(case):
    from mpf.core.utility_functions import Util
    v = untag(case["v"])
    return {"ms": _outcome(Util.string_to_ms, v), "secs": _outcome(Util.string_to_secs, v)}


def cres(o, okf, ty):
    if "ok" in o:
        return "(@Ok %s %s)" % (ty, okf(o["ok"]))
    return "(@Err %s %s)" % (ty, cerr(o["err"]))


def coq_time(case, out):
    t = case["v"]
    try:
        if has_text(t, lambda s: not numeric_text_in_domain(s)):
            return None
        inp = cyv(t)

        def ms_ok(x):
            if x[0] != "i":
                raise OutOfDomain("ms result kind")
            return zlit(int(x[1]))

        def secs_ok(x):
            if x[0] != "f":
                raise OutOfDomain("secs result kind")
            return cfl(float(x[1]))
        return "(%s, (%s, %s))" % (inp, cres(out["ms"], ms_ok, "Z"), cres(out["secs"], secs_ok, "fl"))
    except OutOfDomain:
        return None


TIME_RE = re.compile(r"^\s*([0-9]+(?:\.[0-9]*)?|\.[0-9]+)(ms|msec|s|sec|m|h|d)$", re.I | re.A)


def expected_ms(s):
    """the property's own reading of a time string: value times unit, as an exact rational number of ms
    (None: not a plain `<decimal><unit>` string)"""
    m = TIME_RE.match(s)
    if not m:
        return None
    num, unit = m.group(1), m.group(2).lower()
    if unit in ("ms", "msec") and "." in num:
        return None          # fractional milliseconds: rejecting is a legitimate answer
    return Fraction(num) * UNIT_MS[unit]


def oracle_time(case, out):
    fails = []
    t = case["v"]
    ms, secs = out["ms"], out["secs"]
    if "ok" in ms and ms["ok"][0] != "i":
        fails.append({"sig": "time-ill-typed", "what": "string_to_ms returned a %s" % ms["ok"][0]})
    if "ok" in secs and secs["ok"][0] != "f":
        fails.append({"sig": "time-ill-typed", "what": "string_to_secs returned a %s" % secs["ok"][0]})
    if t[0] != "s":
        return fails
    want = expected_ms(t[1])
    if want is None or want >= 2 ** 49:
        return fails
    if "err" in ms:
        fails.append({"sig": "time-suffix-rejected",
                      "what": "string_to_ms(%r) raises %s; value times unit = %s ms" % (t[1], ms["err"], want)})
        return fails
    got = int(ms["ok"][1])
    if want.denominator == 1:
        if got != want:
            fails.append({"sig": "time-value-off",
                          "what": "string_to_ms(%r) = %d, value times unit = %d ms" % (t[1], got, want)})
    elif abs(got - want) > 1:
        fails.append({"sig": "time-value-off",
                      "what": "string_to_ms(%r) = %d, value times unit = %s ms" % (t[1], got, float(want))})
    if any(c.isalpha() for c in t[1]):
        if "err" in secs:
            fails.append({"sig": "time-suffix-rejected", "what": "string_to_secs(%r) raises %s" % (t[1], secs["err"])})
        elif want.denominator == 1 and secs["ok"][0] == "f" and float(secs["ok"][1]) != int(want) / 1000.0:
            fails.append({"sig": "time-value-off",
                          "what": "string_to_secs(%r) = %s, value times unit = %s s" % (t[1], secs["ok"][1], int(want) / 1000.0)})
    return fails


def shrink_time(case):
    t = case["v"]
    if t[0] == "s":
        s = t[1]
        for j in range(len(s)):
            yield {"v": ["s", s[:j] + s[j + 1:]]}
        for j, c in enumerate(s):
            if c.isdigit() and c not in "01":
                yield {"v": ["s", s[:j] + "1" + s[j + 1:]]}
            if c == "1":
                yield {"v": ["s", s[:j] + "0" + s[j + 1:]]}


def nontrivial_time(case, out):
    t = case["v"]
    return t[0] == "s" and any(c.isalpha() for c in t[1]) and any(c.isdigit() for c in t[1])


def describe_time(case):
    t = case["v"]
    if t[0] != "s":
        return "kind=" + t[0]
    m = re.search(r"([a-zA-Z]+)\s*$", t[1])
    return "suffix=" + (m.group(1).lower() if m else "-") + (" frac" if "." in t[1] else "")


HDR_TIME = ("From Coq Require Import QArith.\nFrom C12 Require Import Base Model.\nOpen Scope Z_scope.\n"
            "Definition run := time_run.\nDefinition out_eqb := time_out_eqb.\n")


# ==================================================================================================
# the rig: one booted machine per worker; its real ConfigValidator and real spec
_RIG = {}
MACHINE = {"switches": ["s1", "s2", "s_left"], "coils": ["c1", "c2"], "ball_devices": ["playfield"],
           "playfields": ["playfield"], "shot_profiles": ["default"], "combo_switches": ["both_flippers"],
           "timed_switches": ["flipper_cradle"], "psus": ["default"]}
MODELLED = set(EXPECTED_VALIDATORS) - {"dict"} | {"dict"}
UNMODELLED_TYPES = ["color", "kivycolor", "int_from_hex", "subconfig(device)", "color_or_token", "kivycolor", "color",
                    "subconfig(coil_overwrites)", "subconfig(shot_profile_states)", "subconfig(sound_ducking)",
                    "dict(str:int)", "dict(str:machine(switches))", "dict(lstr:ms)", "dict(int:kivycolor)", "dict(x)",
                    "subconfig(nosuch)", "subconfig", "kivycolor(1)", "color()", "color(x)", "int_from_hex(2)",
                    "subconfig(sound_ducking,device)"]
COLOR_ITEMS = ["red", "Red", "RED", "off", "white", "ff0000", "FF00aa", "ff0000ff", "abcdef1", "fff", "f00", "bad", "abc",
               "#ff0000", "#fff", "12345", "123456789", "fffffg", "255,0,0", "255, 0, 0", "1,2", "1,2,3,4", "1,2,3,4,5",
               "300,0,0", "-1,2,3", "0,0,256", "1,none,3", "1.5,2,3", "a,b,c", "(x)", "(machine.color)", "()", "(",
               "none", "", " ", "0", 0, 123456, 255, True, False, None, 1.5, "red,blue", " red", "beige", "cafe00",
               "decade", "facade", "ABCDEF", "00ff00 ", "0,0,0", "255,255,255,255", "12,34", "1_0,2,3", " 7 ,8,9"]
HEX_ITEMS = ["ff", "fff", "0", "7f", "FF", "0x1F", "0X10", "0x", "0x_f", "0x__f", "f_f", "_f", "f_", " f ", "-5", "+a", "g",
             "", "none", "1.5", 10, 255, 256, 0, -3, 1.5, True, None, "100", "0b1", "1e3", "dead", "be ef", "0xg"]
TEMPLATE_TYPES = ["template_int", "template_float", "template_ms", "template_secs", "template_str", "template_bool",
                  "template_float_or_token", "gain"]


def rig_init():
    """worker initialiser: must never raise (a raising Pool initialiser makes multiprocessing respawn workers forever)"""
    if "rig" in _RIG or "error" in _RIG:
        return
    try:
        _rig_boot()
    except BaseException as e:     # noqa
        import traceback
        _RIG["error"] = "the rig machine does not boot on this tree: %s: %s\n%s" % (
            type(e).__name__, e, traceback.format_exc()[-1200:])


def _need_rig():
    rig_init()
    if "error" in _RIG:
        raise RuntimeError(_RIG["error"])


def _rig_boot():
    import logging
    logging.disable(logging.CRITICAL)
    from rig import Rig
    cfg = {"switches": {n: {"number": str(i + 1)} for i, n in enumerate(MACHINE["switches"])},
           "coils": {n: {"number": str(i + 1)} for i, n in enumerate(MACHINE["coils"])}}
    r = Rig(cfg).start()
    # the device names handed to the model must be exactly what the booted machine has
    for name, coll in r.machine.device_manager.collections.items():
        if sorted(coll.keys()) != sorted(MACHINE.get(name, [])):
            raise RuntimeError("rig machine collection %s = %r differs from MACHINE" % (name, sorted(coll.keys())))
    _RIG["rig"] = r
    _RIG["cv"] = r.machine.config_validator
    _RIG["spec0"] = spec_fingerprint(r.machine.config_validator.config_spec)
    import atexit
    atexit.register(r.stop)


def spec_fingerprint(spec):
    return json.dumps(spec, sort_keys=True, default=repr)


_REAL = {}


def real_spec():
    """config_spec.yaml through MPF's own loader (what ConfigValidator is constructed with)"""
    if "spec" not in _REAL:
        import mpf
        from mpf.file_interfaces.yaml_interface import YamlInterface
        from mpf.core.config_spec_loader import ConfigSpecLoader
        p = os.path.join(os.path.dirname(mpf.__file__), "config_spec.yaml")
        spec = ConfigSpecLoader.process_config_spec(YamlInterface.process(open(p).read()), "root")
        _REAL["spec"] = spec
        entries = []
        for sec, body in spec.items():
            if isinstance(body, dict):
                for k, v in body.items():
                    if isinstance(v, list) and len(v) == 3:
                        entries.append((sec, k, v))
        _REAL["entries"] = entries
        _REAL["sections"] = sorted(k for k, v in spec.items() if isinstance(v, dict))
    return _REAL


def enc_entry(key, v):
    if isinstance(v, str) and v == "ignore":
        return ["ignore"]
    if isinstance(v, list) and len(v) == 3 and all(isinstance(x, str) for x in v):
        return ["item"] + list(v)
    if isinstance(v, dict):
        return ["nested", enc_spec(v)]
    return ["raw"]


def enc_spec(d):
    return [[k, enc_entry(k, v)] for k, v in d.items()]


def dec_spec(enc):
    d = {}
    for k, e in enc:
        if e[0] == "ignore":
            d[k] = "ignore"
        elif e[0] == "item":
            d[k] = list(e[1:])
        elif e[0] == "nested":
            d[k] = dec_spec(e[1]) if len(e) > 1 else {"x": ["single", "str", ""]}
        else:
            d[k] = "machine, mode"
    return d


# --------------------------------------------------------------------------------------------------
# generators
WORDS = ["a", "b", "on", "off", "yes", "no", "true", "false", "t", "f", "enable", "disable", "True", "FALSE", "Yes",
         "none", "None", "NONE", " none", "input", "output", "basic", "full", "1", "2", "3", "", " ", "x y", "s1", "s2",
         "c1", "nope", "S1", "(tok)", "()", "(", "(a)b", "(machine.x)", "a,b", "a, b", "a,none,b", "a, none", "a,,b",
         "a, ,b", ",", "s1,s2", "s1, nope", "1,2,3", "1, x", "ev{x>1}", "a{b,c}, d", "é", "200ms", "1.5s", "2sec",
         "1m", "1.001s", "200msec", "nan", "inf", "-inf", "NaN", "1e3", "1.5", ".5", "5.", "-3", "+4", " 7 ", "1_0",
         "0x10", "8", "16", "7", "255", "256", "0", "-1", "1.0", "0.5", "1e400", "1.5.2", "12abc",
         "{machine.x}", "(settings.a + 1)", "1 +", "current_player.score > 10", "a if b else c", "(x", "x)", "(1 +)",
         "ev1{x>1}, ev2", "ev-a|5 ev_b{c==\"d, e\"}", "a{b", "a}b{c}", "5db", "-6 db", "-inf", "-infinity db", "db", "3dB",
         "ev{a}{b}, c", "{}", "a {b}", "x{1\n}"]
INTS = [0, 1, -1, 2, 3, 7, 8, 16, 100, 255, 256, 1000, -8, 2 ** 31, 2 ** 53 + 1, 10 ** 20]
FLOATS = [0.0, -0.0, 1.0, 0.5, 1.5, -2.5, 0.1, 1e-5, 8.0, 255.0, 255.5, 1e20, float("nan"), float("inf"), float("-inf"),
          2.999, 0.999, 1.0000001]


def rscalar(rng):
    r = rng.random()
    if r < 0.42:
        return rng.choice(WORDS)
    if r < 0.62:
        return rng.choice(INTS + [rng.randrange(-50, 300)])
    if r < 0.80:
        return rng.choice(FLOATS + [round(rng.uniform(-2, 3), 3)])
    if r < 0.90:
        return rng.random() < 0.5
    return None


def rvalue(rng, depth=0):
    r = rng.random()
    if depth >= 2 or r < 0.72:
        return rscalar(rng)
    if r < 0.87:
        return [rvalue(rng, depth + 1) for _ in range(rng.randrange(0, 4))]
    d = {}
    for _ in range(rng.randrange(0, 4)):
        k = rscalar(rng)
        if isinstance(k, float) and k != k:
            k = "nan"
        d[k] = rvalue(rng, depth + 1)
    return d


SCALAR_VALIDATORS = ["str", "lstr", "int", "int(0,255)", "int(NONE,10)", "int(-5,NONE)", "int(1,8)", "float", "float(0,1)",
                     "float(0.5,NONE)", "float(NONE,2.5)", "num", "num(0,100)", "num(0.5,1.5)", "bool", "boolean", "ms",
                     "secs", "enum(a,b,none)", "enum(yes,no)", "enum(1,2,3)", "enum(input,output)", "enum(None,Basic,Full)",
                     "enum(true,false)", "machine(switches)", "machine(coils)", "machine(lights)", "pow2", "bool_int",
                     "list", "dict", "int_or_token", "float_or_token", "num_or_token", "bool_or_token", "ms_or_token",
                     "secs_or_token", "int_or_token(0,10)", "event_posted", "event_handler", "bool()", "ms()",
                     "template_int", "template_float", "template_ms", "template_secs", "template_str", "template_bool",
                     "template_float_or_token", "gain", "template_int", "template_ms", "gain", "template_float(0,1)"]
ODD_VALIDATORS = ["template_int(1)", "gain(1)", "template_str()", "nosuch", "nosuch(1)", "str(1)", "enum", "machine", "bool(x)", "int(5)", "int(a,b)", "pow2(1)", "float(0,1",
                  "int()", "list(x)", "dict(str:int)", "secs(1)"]
DICT_VALIDATIONS = ["str:subconfig(sound_ducking)", "int:subconfig(coil_overwrites)", "str:kivycolor", "str:color",
                    "str:int_from_hex", "str:int", "int:int", "str:str", "float:str", "str:list", "machine(switches):ms", "int:enum(input,output)",
                    "str:ms", "str:bool", "lstr:num(0,10)", "list:int", "nocolon", "str:int:x", "str:secs", "int:pow2"]


def good_item(rng, validation):
    """a value that is likely (not certain) to be valid for the validator"""
    name = validation.split("(")[0]
    param = validation[len(name) + 1:-1] if "(" in validation else ""
    if name.endswith("_or_token") and rng.random() < 0.3:
        return rng.choice(["(tok)", "(machine.a|b)", "()"])
    base = name[:-9] if name.endswith("_or_token") else name
    if base in ("int", "num", "float"):
        lo, hi = 0, 10
        ps = param.split(",")
        if len(ps) == 2:
            try:
                lo = float(ps[0]) if ps[0] != "NONE" else -100
                hi = float(ps[1]) if ps[1] != "NONE" else 1000
            except ValueError:
                pass
        pick = rng.choice([lo, hi, lo - 1, hi + 1, (lo + hi) / 2, lo - 0.001, hi + 0.001, lo + 0.25])
        if base == "int" or (base == "num" and rng.random() < 0.5):
            if rng.random() < 0.7:
                pick = int(math.floor(pick))
        else:
            pick = float(pick)
        r = rng.random()
        if r < 0.5:
            return pick
        if r < 0.85:
            return rng.choice(["%s", " %s", "%s ", "+%s"]) % (pick,) if pick >= 0 or rng.random() < 0.9 else str(pick)
        return rng.choice([float("nan"), "nan", float("inf"), "-inf", True, "1e1", "1_0"])
    if base in ("bool", "boolean", "bool_int"):
        return rng.choice([True, False, "yes", "No", "on", "OFF", "t", "F", "enable", "Disable", "true", "False", 1, 0, "1"])
    if base == "ms":
        return rng.choice([200, "200ms", "1.5s", "1.001s", "2 s", "200msec", "1m", "0.5h", 1.5, "50", "1d", "1e2s", "10MS"])
    if base == "secs":
        return rng.choice([2, "200ms", "1.5s", "1.001s", 0.25, "2", "1.5", "3m", 1e-5, "1sec", "2.5"])
    if base == "enum":
        vals = param.split(",")
        return rng.choice(vals + [v.upper() for v in vals] + [True, False, None, 1, 2, "zzz", 1.0])
    if base == "machine":
        return rng.choice(MACHINE.get(param, []) + ["s1", "c1", "nope", "", None, 5])
    if base == "pow2":
        return rng.choice([1, 2, 8, 16, 1024, "8", "16", 8.0, 7, 0, -8, "7", True, 2 ** 70, "x", 2.5])
    if base == "list":
        return rng.choice(["a,b", "a, b ,c", ["a", "b"], "a", 5, None, "", "a,none"])
    if base == "dict":
        return rng.choice([{}, {"a": 1}, {"a": {"b": 2}}, None, "", 0, "x", [], [1]])
    if base in ("color", "kivycolor"):
        if rng.random() < 0.15:
            # three or four hex-ish / decimal characters at every position
            return "".join(rng.choice("0123456789abcdefABCDEFg#, ") for _ in range(rng.choice([3, 3, 4, 6, 6, 7, 8, 9])))
        if rng.random() < 0.10:
            return ",".join(str(rng.choice([0, 1, 17, 128, 255, 256, -1, 1000])) for _ in range(rng.choice([1, 2, 3, 3, 3, 4, 5])))
        return rng.choice(COLOR_ITEMS)
    if base == "int_from_hex":
        return rng.choice(HEX_ITEMS)
    if base == "subconfig":
        return rng.choice([None, {}, {"zz": 1}, "abc", 5, [], {"pulse_ms": 20}, {"pulse_msec": 20}, {"name": "one"},
                           {"name": "one", "shw": "flash"}, {"attack": "1s", "target": "music", "attenuation": 0.5},
                           {"target": "music", "attenuation": 0.5, "relase": "1s"}, {"label": "x", "tags": "a, b"},
                           {"label": "x", "Tags": "a"}, {"_x": 1}, "none", [{"a": 1}]])
    if base.startswith("template_"):
        return rng.choice([5, "5", " 7 ", 1.5, "1.5", True, False, "true", "settings.a + 1", "(settings.a + 1)",
                           "current_player.score > 10", "1 +", "(x", "{machine.x}", "abc", "a b", "2s", "1.5s", "200ms",
                           "1m", "x if y else 3", "", None, "None", "()", "(a)", ["a"], {"a": 1}, 10 ** 20, "1e3", "nan",
                           "machine.a|b", "not a", "a.b.c", "0x10", "1_0", "-3", "3 > 2"])
    if base == "gain":
        return rng.choice([0.5, "0.5", 1, 0, 2, -1, "2", "-0.5", "nan", float("nan"), "inf", "-inf", "-infinity", "-6db",
                           "-6 dB", "0db", "db", "xdb", "abc", "", None, True, "1e-3", 1.5, "0.25", " 0.25 ", "-infdb",
                           float("inf"), ["a"], "3dB", "1,5"])
    return rng.choice(["abc", "Abc Def", 5, 1.5, True, None, "none", "", ["a"], {"a": 1}])


def gen_spec_entry(rng):
    r = rng.random()
    if r < 0.55:
        ty = "single"
    elif r < 0.72:
        ty = "list"
    elif r < 0.78:
        ty = "set"
    elif r < 0.90:
        ty = "dict"
    elif r < 0.97:
        ty = "event_handler"
    else:
        ty = rng.choice(["singel", "List", ""])
    if ty == "dict":
        va = rng.choice(DICT_VALIDATIONS)
    elif ty == "event_handler":
        va = "event_handler:ms" if rng.random() < 0.92 else "str:ms"
    else:
        r = rng.random()
        va = rng.choice(SCALAR_VALIDATORS) if r < 0.76 else rng.choice(ODD_VALIDATORS) if r < 0.81 else \
            rng.choice(UNMODELLED_TYPES)
    r = rng.random()
    if r < 0.30:
        de = ""
    elif r < 0.50:
        de = rng.choice(["None", "none", "NONE"])
    elif r < 0.85 and ty in ("single", "list", "set"):
        g = good_item(rng, va)
        de = g if isinstance(g, str) else "" if g is None or isinstance(g, (list, dict)) else str(g)
    else:
        de = rng.choice(["0", "1", "a", "false", "basic", "s1", "1s", "x,y", "-1", "%"])
    return [ty, va, de]


EVENT_STRS = ["ev1{x>1}", "ev1{a==1}, ev2", "ev-a|5, ev_b{c==\"d, e\"}", "ev|2{x}", "ev1|3", "ev1|3, ev2|-1{y}", "a{b",
              "a}b{c}", "ev1{x>1} ev2{y<2}", "ev.dot{x}", "ev1{x}{y}", "{x}", "ev1 {x}", "e1{a,b},e2", "e1{a\nb}, e2",
              "none{x}", "none, e{x}", "e{none}", "e-1|2{device.switches.s1.state==1}", "e{x} , none", "E|1{X}, e|1{X}"]


def item_for(rng, ty, va):
    if ty in ("list", "event_handler") and rng.random() < (0.25 if ty == "event_handler" else 0.12):
        return rng.choice(EVENT_STRS)
    if ty in ("dict", "event_handler"):
        r = rng.random()
        if ty == "event_handler" and r < 0.45:
            return rng.choice(["ev1", "ev1, ev2", "ev1,ev1", "None", "none", ["ev1", "ev2"], ["ev1", ["x"]], "", None, 5,
                               "a,none", ["a", None, 1, 1.0, True], ["ev1{x>1}", "ev2|5"], {"ev1{x>1}": "1s", "ev2|5": 0}])
        if r < 0.75:
            parts = va.split(":")
            kv, vv = parts[0], parts[1] if len(parts) > 1 else "str"
            d = {}
            for _ in range(rng.randrange(0, 4)):
                k = good_item(rng, kv)
                if isinstance(k, (list, dict)) or (isinstance(k, float) and k != k):
                    k = "k"
                d[k] = good_item(rng, vv) if rng.random() < 0.85 else rvalue(rng, 1)
            return d
        return rng.choice([None, "None", "none", "", "abc", 5, [], ["a"], {1: 2, True: 3, 1.0: 4, "1": 5}, {None: 1}])
    if ty in ("list", "set"):
        r = rng.random()
        if r < 0.35:
            return [good_item(rng, va) if rng.random() < 0.9 else rvalue(rng, 1) for _ in range(rng.randrange(0, 4))]
        if r < 0.70:
            xs = [good_item(rng, va) for _ in range(rng.randrange(1, 4))]
            xs = [str(x) for x in xs if not isinstance(x, (list, dict))]
            return rng.choice([",", ", ", " ,"]).join(xs)
        if r < 0.85:
            return good_item(rng, va)
        return rvalue(rng)
    return good_item(rng, va) if rng.random() < 0.8 else rvalue(rng)


def gen_item(rng, tier, i):
    if rng.random() < 0.30:
        sec, key, ent = rng.choice(real_spec()["entries"])
        spec = list(ent)
        src = "real:%s:%s" % (sec, key)
    else:
        spec = gen_spec_entry(rng)
        src = "synthetic"
    case = {"spec": spec, "src": src}
    if rng.random() < 0.88:
        case["item"] = tagv(item_for(rng, spec[0], spec[1]))
    return case


def run_item(case):
    _need_rig()
    cv = _RIG["cv"]
    from mpf.core.config_validator import ValidationPath
    vfi = ValidationPath(ValidationPath(None, "sec"), "key")
    args = [list(case["spec"]), vfi]
    if "item" in case:
        args.append(untag(case["item"]))
    root = spec_closure(cv.config_spec, subconfig_refs_of_entry(case["spec"][0], case["spec"][1])) \
        if "subconfig" in case["spec"][1] else []
    out = _outcome(cv.validate_config_item, *args)
    out["spec_changed"] = spec_fingerprint(cv.config_spec) != _RIG["spec0"]
    out["root"] = root
    return out


# --------------------------------------------------------------------------------------------------
# the spec store as a tree (sections reachable through subconfig(..) references), for the recursive model
def subconfig_refs_of_entry(ty, va):
    vs = va.split(":")[:2] if ty in ("dict", "event_handler") else [va]
    out = []
    for v in vs:
        n, p = split_validator(v)
        if n == "subconfig" and p:
            out.extend(x for x in p.split(",") if x)
        if n == "dict" and p:
            for w in p.split(":")[:2]:
                n2, p2 = split_validator(w)
                if n2 == "subconfig" and p2:
                    out.extend(x for x in p2.split(",") if x)
    return out


def _refs_of_body(enc):
    out = []
    for k, e in enc:
        if e[0] == "item":
            out.extend(subconfig_refs_of_entry(e[1], e[2]))
        elif e[0] == "nested" and len(e) > 1:
            out.extend(_refs_of_body(e[1]))
    return out


def spec_closure(config_spec, names):
    """[[section, enc_spec(body)], ...] for every top-level section reachable from `names` (which may be paths a:b)"""
    seen = {}
    todo = [n.split(":")[0] for n in names]
    while todo:
        n = todo.pop()
        if n in seen or n not in config_spec or not isinstance(config_spec[n], dict):
            continue
        seen[n] = enc_spec(config_spec[n])
        todo.extend(x.split(":")[0] for x in _refs_of_body(seen[n]))
    return [[n, seen[n]] for n in sorted(seen)]


def tree_get(rootmap, name):
    parts = name.split(":")
    body = rootmap.get(parts[0])
    for q in parts[1:]:
        if body is None:
            return None
        ent = dict((k, e) for k, e in body).get(q)
        body = ent[1] if ent is not None and ent[0] == "nested" and len(ent) > 1 else None
    return body


def ctspec(enc):
    def ce(e):
        if e[0] == "ignore":
            return "TIgnore"
        if e[0] == "item":
            return "(TItem %s %s %s)" % (cstr(e[1]), cstr(e[2]), cstr(e[3]))
        if e[0] == "nested":
            return "(TNested %s)" % ctspec(e[1] if len(e) > 1 else [["x", ["item", "single", "str", ""]]])
        return "TRaw"
    return "(%s : tspec)" % coqlist("(%s, %s)" % (cstr(k), ce(e)) for k, e in enc) if enc else "(@nil (str * tentry))"


def croot(root):
    if not root:
        return "(@nil (str * tentry))"
    return coqlist("(%s, TNested %s)" % (cstr(n), ctspec(body)) for n, body in root)


def body_modelled(enc, depth=0):
    """every entry of a (sub-)section is inside the recursive model's domain"""
    for k, e in enc:
        if not ascii_ok(k) or k == "":
            return False
        if e[0] == "item":
            if k.startswith("_"):
                continue
            if not entry_modelled_x(e[1], e[2]) or not ascii_ok(e[3]) or not numeric_text_in_domain(e[3]) or \
                    gain_db_outside(e[1], e[2], None, e[3]):
                return False
        elif e[0] == "nested":
            if len(e) > 1 and not body_modelled(e[1], depth + 1):
                return False
    return True


TUPLE_VALIDATORS = ("color", "color_or_token")


def entry_modelled_x(ty, va):
    if not ascii_ok(ty + va):
        return False
    # a colour is a TUPLE (hashable) in the code and a list in the model's observable: as a set element or a dict key the
    # two differ (the model would report "unhashable") -> such entries are judged by the oracle only
    vs0 = va.split(":")[:2] if ty in ("dict", "event_handler") else [va]
    if ty == "set" and split_validator(va)[0] in TUPLE_VALIDATORS:
        return False
    if ty in ("dict", "event_handler") and split_validator(vs0[0])[0] in TUPLE_VALIDATORS:
        return False
    for v in vs0:
        n0, p0 = split_validator(v)
        if n0 == "dict" and p0 and split_validator(p0.split(":")[0])[0] in TUPLE_VALIDATORS:
            return False
    for v in (va.split(":")[:2] if ty in ("dict", "event_handler") else [va]):
        n, p = split_validator(v)
        if n == "dict" and p:
            # dict(k:v): the inner validators are the first layer (no dict(..) inside dict(..))
            if any(split_validator(w)[0] == "dict" and split_validator(w)[1] for w in p.split(":")[:2]):
                return False
    return True


def deep_in_domain(rootmap, names, t, depth=0):
    """the source of a (sub-)config is inside the recursive model's domain (every value for its validator)"""
    if depth > 8:
        return False
    bodies = [tree_get(rootmap, n) for n in names]
    if any(b is None for b in bodies):
        return True          # KeyError in the code, EKey in the model
    if not all(body_modelled(b) for b in bodies):
        return False
    merged = merged_spec_py(bodies)
    if any(e[0] == "item" and e[1] == "set" for e in merged.values()):
        return False
    if t[0] != "d":
        return not has_text(t, lambda x: not ascii_ok(x))
    for kt, vt in t[1]:
        if kt[0] == "s" and not ascii_ok(kt[1]):
            return False
        e = merged.get(kt[1]) if kt[0] == "s" else None
        if e is None or kt[1].startswith("_"):
            if has_text(vt, lambda x: not ascii_ok(x)):
                return False
            continue
        if e[0] == "item":
            if not item_in_domain_x(rootmap, e[1], e[2], vt, depth):
                return False
        elif e[0] == "nested":
            if vt[0] == "l":
                if not all(deep_in_domain(rootmap, [names[0] + ":" + kt[1]], x, depth + 1) for x in vt[1]):
                    return False
            elif vt[0] != "n":
                return False
        elif e[0] == "raw":
            return False
    return True


def item_in_domain_x(rootmap, ty, va, t, depth=0):
    if not item_in_domain(ty, va, t):
        return False
    vs = va.split(":")[:2] if ty in ("dict", "event_handler") else [va]
    refs = []
    for j, v in enumerate(vs):
        n, p = split_validator(v)
        if n == "subconfig" and p:
            refs.append((j, p.split(",")))
        elif n == "dict" and p:
            for w in p.split(":")[:2]:
                if split_validator(w)[0] == "subconfig":
                    return False     # subconfig inside dict(k:v): not generated, not modelled in the harness
    if not refs:
        return True
    # the values handed to the subconfig validator
    subs = []
    if ty == "single":
        subs = [t]
    elif ty in ("list", "set"):
        if t[0] == "l":
            subs = list(t[1])
        elif t[0] == "d":
            subs = [t]
        elif t[0] == "s" and t[1] != "":
            return False        # a comma string of "sub-configs": each is a str (char-wise unknown-key check) - not fed
    elif t[0] == "d":
        subs = [v for _, v in t[1]] if refs[0][0] == 1 or len(refs) > 1 else [k for k, _ in t[1]]
    for x in subs:
        if x[0] == "d":
            if not deep_in_domain(rootmap, refs[0][1], x, depth + 1):
                return False
        elif x[0] in ("l",):
            if has_text(x, lambda y: not ascii_ok(y)):
                return False
    return True


EV_RE = re.compile(r'([\w|-]+?\{.*?\}|[\w|-]+)')


def _texts_of(t, acc):
    k = t[0]
    if k == "s":
        acc.add(t[1])
    elif k == "i":
        acc.add(t[1])
    elif k == "f":
        acc.add(repr(float(t[1])))
    elif k == "b":
        acc.add(str(bool(t[1])))
    elif k in ("l", "set"):
        for x in t[1]:
            _texts_of(x, acc)
    elif k == "d":
        for a, b in t[1]:
            _texts_of(a, acc)
            _texts_of(b, acc)


def expr_table(values, defaults, validators):
    """the abstract 'Python expression grammar' handed to the model: those texts of the case (and their list
    elements) that ast.parse(text, mode='eval') accepts -- computed by the harness, not by MPF"""
    if not any("template" in v for v in validators):
        return []
    acc = set()
    for t in values:
        _texts_of(t, acc)
    acc.update(defaults)
    cands = set()
    for x in acc:
        cands.add(x)
        for y in x.split(","):
            cands.add(y.strip())
        for y in EV_RE.findall(x):
            cands.add(y.strip())
    out = []
    for x in sorted(cands):
        if not ascii_ok(x):
            continue
        try:
            import warnings
            with warnings.catch_warnings():
                warnings.simplefilter("ignore")
                ast.parse(x, mode="eval")
            out.append(x)
        except SyntaxError:
            pass
        except Exception:     # noqa  (null bytes, recursion: none of these is generated)
            raise OutOfDomain("ast.parse")
    return out


def cmach(table):
    if not table:
        return "M"
    return "(([35;101;120;112;114], %s) :: M)" % coqlist(cstr(x) for x in table)


def cmachine():
    return coqlist("(%s, %s)" % (cstr(k), coqlist(cstr(n) for n in v)) for k, v in sorted(MACHINE.items()))


def split_validator(va):
    if "(" in va and va[-1:] == ")":
        n, p = va.split("(", 1)
        return n, p[:-1]
    return va, None


def validator_modelled(va):
    n, p = split_validator(va)
    if n in UNMODELLED_NAMES:
        return False
    if n == "dict" and p:
        return False
    return True


UNMODELLED_NAMES = {"int_from_hex", "kivycolor", "color", "color_or_token", "subconfig"}


def entry_modelled(ty, va):
    if not ascii_ok(ty + va):
        return False
    if ty in ("dict", "event_handler"):
        return all(validator_modelled(x) for x in va.split(":")[:2])
    return validator_modelled(va)


def item_in_domain(ty, va, t):
    """inputs the hand model covers (everything else is oracle-only and counted)"""
    if has_text(t, lambda s: not numeric_text_in_domain(s)):
        return False
    if has_text(t, lambda s: "\n" in s and "{" in s and not ascii_ok(s)):
        return False
    if ty == "set":
        # Python set semantics (hash order, 1 == 1.0 == True) are modelled for strings only
        if t[0] == "l" and not all(x[0] in ("s", "n") for x in t[1]):
            return False
        if t[0] not in ("l", "s", "n"):
            return False
    if has_container_str(ty, va, t) or gain_db_outside(ty, va, t):
        return False
    return True


def _db_text(x):
    """'<number>db': Util.db_to_gain is 10 ** (db / 20), a transcendental the model does not compute (oracle-only)"""
    u = x.strip().lower()
    if u.startswith("-inf") or not u.endswith("db"):
        return False
    try:
        float("".join(c for c in u if not c.isalpha()))
        return True
    except ValueError:
        return False


def gain_db_outside(ty, va, t, de=""):
    names = [split_validator(x)[0] for x in (va.split(":")[:2] if ty in ("dict", "event_handler") else [va])]
    if "gain" not in names:
        return False
    return (t is not None and has_text(t, lambda x: any(_db_text(y) for y in [x] + x.split(",")))) or \
        any(_db_text(y) for y in [de] + de.split(","))


def has_container_str(ty, va, t):
    """str(list/dict) is not modelled: lstr / enum / secs applied to a container"""
    names = [split_validator(x)[0] for x in (va.split(":")[:2] if ty in ("dict", "event_handler") else [va])]
    sensitive = ("lstr", "secs", "secs_or_token", "template_str", "gain", "color", "color_or_token", "kivycolor",
                 "int_from_hex")
    if "dict(" in va:
        n0, p0 = split_validator(va)
        if n0 != "dict" or not p0 or ty != "single":
            return t[0] in ("l", "d")
        if not any(split_validator(w)[0] in sensitive for w in p0.split(":")[:2]):
            return False
        return t[0] == "d" and any(a[0] in ("l", "d") or b[0] in ("l", "d") for a, b in t[1])
    if not any(n in sensitive for n in names):
        return False

    def deep(x, lvl):
        if x[0] in ("l", "d"):
            if lvl >= 1:
                return True
            if x[0] == "l":
                return any(deep(y, lvl + 1) for y in x[1])
            return any(deep(a, lvl + 1) or deep(b, lvl + 1) for a, b in x[1])
        return False
    if ty == "single":
        return t[0] in ("l", "d")
    return deep(t, 0)


def _all_entries(enc):
    for k, e in enc:
        if e[0] == "item":
            yield e
        elif e[0] == "nested" and len(e) > 1:
            for x in _all_entries(e[1]):
                yield x


def coq_item(case, out):
    ty, va, de = case["spec"]
    try:
        if not entry_modelled_x(ty, va) or not ascii_ok(de) or not numeric_text_in_domain(de):
            return None
        if gain_db_outside(ty, va, None, de):
            return None
        root = out.get("root") or []
        rootmap = {n: b for n, b in root}
        if not all(body_modelled(b) for b in rootmap.values()):
            return None
        if "item" in case:
            if not item_in_domain_x(rootmap, ty, va, case["item"]):
                return None
            it = "(Some %s)" % cyv(case["item"])
        else:
            if de and not item_in_domain_x(rootmap, ty, va, ["s", de]):
                return None
            it = "(@None yv)"
        o = out
        if ty == "set" and "err" in out and out["err"] != "CFE9":
            o = {"err": "CFE0"}       # a set has no iteration order: which element fails first is not modelled
        ents = [e for _, b in root for e in _all_entries(b)]
        mt = cmach(expr_table([case["item"]] if "item" in case else [], [de] + [e[3] for e in ents],
                              [va] + [e[2] for e in ents]))
        return "((%s, %s, (%s, %s, %s), %s), %s)" % (croot(root), mt, cstr(ty), cstr(va), cstr(de), it,
                                                     cres(o, cyv, "yv"))
    except OutOfDomain:
        return None


# --------------------------------------------------------------------------------------------------
# the property's own notion of "value of the declared type", on the implementation's output
def within_py(param, x):
    """x: Fraction | 'nan' | 'inf' | '-inf'"""
    if not param:
        return True
    ps = param.split(",")
    if len(ps) < 2:
        return False
    for j, p in enumerate(ps[:2]):
        if p == "NONE":
            continue
        b = float(p)
        if x == "nan":
            return False
        if x in ("inf", "-inf"):
            xv = float(x)
            ok = (b <= xv) if j == 0 else (xv <= b)
        else:
            bf = Fraction(b) if b == b and abs(b) != float("inf") else None
            if bf is None:
                ok = (b <= float(x)) if j == 0 else (float(x) <= b)
            else:
                ok = (bf <= x) if j == 0 else (x <= bf)
        if not ok:
            return False
    return True


def num_of(t):
    if t[0] == "i":
        return Fraction(int(t[1]))
    if t[0] == "b":
        return Fraction(int(t[1]))
    x = float(t[1])
    if x != x:
        return "nan"
    if x in (float("inf"), float("-inf")):
        return "inf" if x > 0 else "-inf"
    return Fraction(x)


def py_has_type(va, t, stats=None):
    """None = not checkable (unmodelled validator); True/False otherwise"""
    n, p = split_validator(va)
    if n.endswith("_or_token"):
        if t[0] == "tok":
            return True
        n = n[:-9]
    if n in ("str", "event_posted", "event_handler"):
        return t[0] in ("n", "s")
    if n == "lstr":
        return t[0] == "n" or (t[0] == "s" and t[1] == t[1].lower())
    if n == "int":
        return t[0] == "n" or (t[0] == "i" and within_py(p, num_of(t)))
    if n == "float":
        return t[0] == "n" or (t[0] == "f" and within_py(p, num_of(t)))
    if n == "num":
        return t[0] == "n" or (t[0] in ("i", "f", "b") and within_py(p, num_of(t)))
    if n in ("bool", "boolean"):
        return t[0] in ("n", "b")
    if n == "ms":
        return t[0] in ("n", "i")
    if n == "secs":
        return t[0] in ("n", "f")
    if n == "enum":
        return t[0] == "n" or (t[0] == "s" and p is not None and t[1] in p.lower().split(","))
    if n == "machine":
        if t[0] == "n":
            return True
        if p not in MACHINE:
            # not a device collection of the rig machine (e.g. machine.shows holds the built-in Show objects "on", "off",
            # "flash", ...): the oracle has no independent registry for it -> not judged
            return None if t[0] in ("other", "dev") else False
        return t[0] == "dev" and t[2] in MACHINE.get(p, [])
    if n == "pow2":
        return t[0] == "n" or (t[0] == "i" and _is_pow2_int(int(t[1])))
    if n == "bool_int":
        return t[0] == "i" and t[1] in ("0", "1")
    if n == "list":
        return t[0] == "l"
    if n == "dict":
        return t[0] == "d"
    if n in ("template_int", "template_ms"):
        return t[0] == "n" or (t[0] == "nat" and t[1][0] == "i") or (t[0] == "tpl" and t[1] == "IntTemplate")
    if n in ("template_float", "template_secs"):
        return t[0] == "n" or (t[0] == "nat" and t[1][0] == "f") or (t[0] == "tpl" and t[1] == "FloatTemplate")
    if n == "template_bool":
        return t[0] == "n" or (t[0] == "nat" and t[1][0] == "b") or (t[0] == "tpl" and t[1] == "BoolTemplate")
    if n == "template_str":
        return t[0] == "n" or (t[0] == "nat" and t[1][0] == "s") or \
            (t[0] == "tpl" and t[1] in ("StringTemplate", "TextTemplate"))
    if n == "gain":
        return t[0] == "n" or (t[0] == "f" and 0.0 <= float(t[1]) <= 1.0)
    if n == "subconfig":
        return subconfig_ok(p, t)
    if n == "kivycolor":
        # "a 4-item list, RGBA, with individual values from 0.0 - 1.0" (or None / a "(placeholder)" string)
        if t[0] == "n" or (t[0] == "s" and t[1][:1] == "(" and t[1][-1:] == ")"):
            return True
        return t[0] == "l" and len(t[1]) == 4 and all(x[0] in ("f", "i") and 0 <= float(x[1]) <= 1 for x in t[1])
    if n == "color":
        # "3-item list, RGB, with individual values from 0-255"
        return t[0] == "tup" and len(t[1]) == 3 and all(x[0] == "i" and 0 <= int(x[1]) <= 255 for x in t[1])
    if n == "int_from_hex":
        return t[0] == "i" and int(t[1]) <= 255
    if n == "dict" and p:
        if t[0] != "d":
            return False
        vs = p.split(":")
        if len(vs) < 2:
            return None
        rs = [py_has_type(vs[0], k) for k, _ in t[1]] + [py_has_type(vs[1], v) for _, v in t[1]]
        return False if False in rs else None if None in rs else True
    return None


_SUBCFG_STORE = [None]     # spec store {section: enc body} the judged case ran against; None = the real config_spec.yaml


def subconfig_ok(param, t, depth=0):
    """subconfig(section[,base...]): the result is a dict that contains every non-private key the sub-section declares
    (own declarations first, bases fill in: independent merge of the real spec), each of its declared type.  pow2 / gain
    positions are not judged here (recorded findings have their own classification at the top level)."""
    if t[0] != "d":
        return False
    if not t[1]:
        return True          # `if item is None: return {}`: the empty dict is the subconfig type's "not given"
    if not param or depth > 3:
        return None
    names = param.split(",")
    ctx = _SUBCFG_STORE[0]
    if ctx is not None:
        # the case ran against its OWN spec store (synthetic sections; one of them may be called `device` like a real
        # section): a sub-config is judged against the sections of that store, never against config_spec.yaml
        bodies = [tree_get(ctx, n) for n in names]
        if any(b is None for b in bodies):
            return None
        merged = merged_spec_py(bodies)
    else:
        rs = real_spec()
        if any(n not in rs["spec"] or not isinstance(rs["spec"][n], dict) for n in names):
            return None
        merged = merged_spec_py([enc_spec(rs["spec"][n]) for n in names])
    have = {json.dumps(k): v for k, v in t[1]}
    verdict = True
    for k, e in merged.items():
        if e[0] != "item" or k.startswith("_"):
            continue
        vt = have.get(json.dumps(["s", k]))
        if vt is None:
            return False
        names_k = [split_validator(x)[0] for x in (e[2].split(":")[:2] if e[1] in ("dict", "event_handler") else [e[2]])]
        if any(x in ("pow2", "gain") for x in names_k):
            continue
        r = py_has_item_type(e[1], e[2], vt)
        if r is False:
            return False
        if r is None:
            verdict = None
    return verdict


def py_has_item_type(ty, va, t):
    if ty == "single":
        return py_has_type(va, t)
    if ty in ("list", "set"):
        if t[0] != ("l" if ty == "list" else "set"):
            return False
        rs = [py_has_type(va, x) for x in t[1]]
        return False if False in rs else None if None in rs else True
    if ty in ("dict", "event_handler"):
        if t[0] != "d":
            return False
        vs = va.split(":")
        rs = []
        for k, v in t[1]:
            rs.append(py_has_type(vs[0], k))
            rs.append(py_has_type(vs[1], v))
        return False if False in rs else None if None in rs else True
    return None


# ---- known finding pow2-returns-unconverted ---------------------------------------------------------
def _is_pow2_int(n):
    return n > 0 and n & (n - 1) == 0


def _unconverted_pow2(t):
    """a str / float / bool whose int() is a power of two (what the recorded defect lets through unconverted)"""
    if t[0] not in ("s", "f", "b"):
        return False
    try:
        return _is_pow2_int(int(untag(t)))
    except (ValueError, OverflowError, TypeError):
        return False


def _input_elems(ty, item_t, default):
    """the values the validator is applied to, unconverted (tagged), for an item / absent item"""
    if item_t is None:
        if default.lower() == "none" or default == "":
            return []
        item_t = ["s", default]
    if ty == "single":
        return [item_t]
    if ty in ("list", "set"):
        if item_t[0] == "s":
            return [["s", x.strip()] for x in item_t[1].split(",")]
        if item_t[0] == "l":
            return list(item_t[1])
        return [item_t]
    if ty in ("dict", "event_handler") and item_t[0] == "d":
        return [k for k, _ in item_t[1]] + [v for _, v in item_t[1]]
    return []


def pow2_defect_only(ty, va, item_t, default, out_t):
    """True iff `out_t` is ill-typed ONLY because pow2 positions hold exactly an unconverted input value whose
    int() is a power of two: replacing those by int(value) makes the result well typed."""
    names = [split_validator(x)[0] for x in (va.split(":")[:2] if ty in ("dict", "event_handler") else [va])]
    if "pow2" not in names:
        return False
    cands = [json.dumps(x) for x in _input_elems(ty, item_t, default)]
    hit = [False]

    def fix(t, is_pow2_pos):
        if is_pow2_pos and _unconverted_pow2(t) and json.dumps(t) in cands:
            hit[0] = True
            return ["i", str(int(untag(t)))]
        return t
    if ty == "single":
        fixed = fix(out_t, True)
    elif ty in ("list", "set") and out_t[0] in ("l", "set"):
        fixed = [out_t[0], [fix(x, True) for x in out_t[1]]]
    elif ty in ("dict", "event_handler") and out_t[0] == "d":
        fixed = ["d", [[fix(k, names[0] == "pow2"), fix(v, len(names) > 1 and names[1] == "pow2")] for k, v in out_t[1]]]
    else:
        return False
    return hit[0] and py_has_item_type(ty, va, fixed) is not False


# ---- known finding gain-nan-unclamped ------------------------------------------------------------------
def _nan_like(t):
    if t[0] == "f":
        return float(t[1]) != float(t[1])
    return t[0] == "s" and t[1].strip().lower() in ("nan", "+nan", "-nan")


def gain_defect_only(ty, va, item_t, default, out_t):
    """True iff `out_t` is ill-typed ONLY because gain positions hold NaN and a NaN text / float was among the inputs
    (min(max(nan, 0.0), 1.0) is nan): replacing those by a gain in range makes the result well typed."""
    names = [split_validator(x)[0] for x in (va.split(":")[:2] if ty in ("dict", "event_handler") else [va])]
    if "gain" not in names or not any(_nan_like(x) for x in _input_elems(ty, item_t, default)):
        return False
    hit = [False]

    def fix(t, pos):
        if pos and t[0] == "f" and float(t[1]) != float(t[1]):
            hit[0] = True
            return ["f", "1.0"]
        return t
    if ty == "single":
        fixed = fix(out_t, True)
    elif ty in ("list", "set") and out_t[0] in ("l", "set"):
        fixed = [out_t[0], [fix(x, True) for x in out_t[1]]]
    elif ty in ("dict", "event_handler") and out_t[0] == "d":
        fixed = ["d", [[fix(k, names[0] == "gain"), fix(v, len(names) > 1 and names[1] == "gain")] for k, v in out_t[1]]]
    else:
        return False
    return hit[0] and py_has_item_type(ty, va, fixed) is not False


# ---- known findings kivycolor-list-unchecked / color-range-unchecked -----------------------------------------
HEX68 = re.compile(r"[0-9a-fA-F]{6,8}\Z")


def _int_list_form(t):
    """the r,g,b LIST form of a colour (a comma string of integers): the only form the recorded defects concern;
    None for named colours, hex strings and everything else"""
    if t[0] == "i" and not HEX68.match(t[1]):
        return [int(t[1])]
    if t[0] != "s":
        return None
    x = t[1]
    if HEX68.match(x):
        return None
    try:
        return [int(q) for q in x.split(",")]
    except ValueError:
        return None


def _kivy_defect_output(cands):
    """tagged outputs the recorded defect produces from the inputs: components/255 without a length or range check"""
    outs = []
    for c in cands:
        comps = _int_list_form(c)
        if comps is None:
            continue
        if len(comps) in (3, 4) and all(0 <= q <= 255 for q in comps):
            continue
        res = [q / 255 for q in comps]
        if len(res) == 3:
            res.append(1)
        outs.append(json.dumps(tagv(res)))
    return outs


def _color_defect_output(cands):
    outs = []
    for c in cands:
        comps = _int_list_form(c)
        if comps is None or len(comps) < 3 or all(0 <= q <= 255 for q in comps[:3]):
            continue
        outs.append(json.dumps(["tup", [["i", str(q)] for q in comps[:3]]]))
    return outs


def color_defect_only(ty, va, item_t, default, out_t):
    """'kivycolor-list-unchecked' / 'color-range-unchecked' iff `out_t` is ill-typed ONLY because colour positions hold
    exactly what the unchecked r,g,b LIST form of one of the inputs gives (wrong number of components, or a component
    outside 0..255).  Named colours and hex strings are not part of the recorded defects."""
    names = [split_validator(x)[0] for x in (va.split(":")[:2] if ty in ("dict", "event_handler") else [va])]
    names = [n[:-9] if n.endswith("_or_token") else n for n in names]
    if not any(n in ("kivycolor", "color") for n in names):
        return None
    cands = _input_elems(ty, item_t, default)
    if ty in ("list", "set") and item_t is not None and item_t[0] == "s":
        cands = cands + [item_t]
    kiv, col = _kivy_defect_output(cands), _color_defect_output(cands)
    hit = []

    def fix(t, name):
        if name == "kivycolor" and json.dumps(t) in kiv:
            hit.append("kivycolor-list-unchecked")
            return ["n"]
        if name == "color" and json.dumps(t) in col:
            hit.append("color-range-unchecked")
            return ["tup", [["i", "0"]] * 3]
        return t
    if ty == "single":
        fixed = fix(out_t, names[0])
    elif ty in ("list", "set") and out_t[0] in ("l", "set"):
        fixed = [out_t[0], [fix(x, names[0]) for x in out_t[1]]]
    elif ty in ("dict", "event_handler") and out_t[0] == "d":
        fixed = ["d", [[fix(k, names[0]), fix(v, names[1] if len(names) > 1 else "")] for k, v in out_t[1]]]
    else:
        return None
    if hit and py_has_item_type(ty, va, fixed) is not False:
        return hit[0]
    return None


# ---- lists of conditional events: the property's own splitter ---------------------------------------------
EV_ELEM = re.compile(r"[A-Za-z0-9_|-]+(\{[^{}\n]*\})?\Z")


def expected_event_elements(text):
    """'ev1{a==1}, ev2{b==2}, plain' -> the provided elements, one per comma outside braces (None: not a plain list of
    conditional events, no expectation)"""
    parts, cur, depth = [], "", 0
    for ch in text:
        if ch == "{":
            depth += 1
        elif ch == "}":
            depth -= 1
        if depth < 0 or depth > 1:
            return None
        if ch == "," and depth == 0:
            parts.append(cur)
            cur = ""
        else:
            cur += ch
    parts.append(cur)
    if depth != 0:
        return None
    parts = [q.strip() for q in parts]
    if not all(EV_ELEM.match(q) for q in parts):
        return None
    return parts


def event_list_failures(ty, va, item_t, out_t):
    """every provided element of a comma list of (conditional) events appears exactly once in the validated list / as
    one key of the validated event_handler dict"""
    if item_t is None or item_t[0] != "s" or "{" not in item_t[1]:
        return []
    if ty == "list" and va not in ("event_posted", "event_handler"):
        want = expected_event_elements(item_t[1])
        if want is None:
            return []
        if out_t[0] != "l" or len(out_t[1]) != len(want):
            return [{"sig": "list-element-lost",
                     "what": "list %r provides the %d elements %r but the validated list is %r" %
                             (item_t[1], len(want), want, out_t)}]
        if split_validator(va)[0] in ("str", "template_str") and va in ("str",):
            exp = [["n"] if w.lower() == "none" else ["s", w] for w in want]
            if json.dumps(exp) != json.dumps(out_t[1]):
                return [{"sig": "list-element-lost",
                         "what": "list %r provides the elements %r but the validated list is %r" % (item_t[1], want, out_t)}]
    if ty == "event_handler":
        want = expected_event_elements(item_t[1])
        if want is None or any(w.lower() == "none" for w in want):
            return []
        keys = [k[1] for k, _ in out_t[1] if k[0] == "s"] if out_t[0] == "d" else []
        if sorted(set(want)) != sorted(keys):
            return [{"sig": "list-element-lost",
                     "what": "event list %r provides the events %r but the validated dict has the keys %r" %
                             (item_t[1], want, keys)}]
    return []


def oracle_item(case, out):
    fails = []
    if out.get("spec_changed"):
        fails.append({"sig": "spec-modified", "what": "config_spec differs after validate_config_item(%r)" % case["spec"]})
    if "ok" in out:
        ty, va, de = case["spec"]
        if py_has_item_type(ty, va, out["ok"]) is False and \
                pow2_defect_only(ty, va, case.get("item"), de, out["ok"]):
            fails.append({"sig": "pow2-returns-unconverted",
                          "what": "validate_config_item(%r, item=%r) returned %r: pow2 hands back the unconverted item" %
                                  (case["spec"], case.get("item", "<absent>"), out["ok"])})
        elif py_has_item_type(ty, va, out["ok"]) is False and \
                gain_defect_only(ty, va, case.get("item"), de, out["ok"]):
            fails.append({"sig": "gain-nan-unclamped",
                          "what": "validate_config_item(%r, item=%r) returned %r: string_to_gain clamps with "
                                  "min(max(x, 0.0), 1.0), which lets NaN through" %
                                  (case["spec"], case.get("item", "<absent>"), out["ok"])})
        elif py_has_item_type(ty, va, out["ok"]) is False and \
                color_defect_only(ty, va, case.get("item"), de, out["ok"]):
            fails.append({"sig": color_defect_only(ty, va, case.get("item"), de, out["ok"]),
                          "what": "validate_config_item(%r, item=%r) returned %r: the r,g,b list form of a colour is "
                                  "neither length- nor range-checked" %
                                  (case["spec"], case.get("item", "<absent>"), out["ok"])})
        elif py_has_item_type(ty, va, out["ok"]) is False:
            fails.append({"sig": "ill-typed:" + (split_validator(va)[0] if ty not in ("dict", "event_handler") else "dict"),
                          "what": "validate_config_item(%r, item=%r) returned %r, which is not a value of the declared type" %
                                  (case["spec"], case.get("item", "<absent>"), out["ok"])})
        fails.extend(event_list_failures(ty, va, case.get("item"), out["ok"]))
        # sub-configs: the property's predicate at every depth (unknown keys, completeness) on the spec the code used
        if out.get("root"):
            rootmap = {n: b for n, b in out["root"]}
            vs = va.split(":")[:2] if ty in ("dict", "event_handler") else [va]
            for j, v in enumerate(vs):
                n, p = split_validator(v)
                if n != "subconfig" or not p:
                    continue
                res = out["ok"]
                subs = [res] if ty == "single" else list(res[1]) if ty in ("list", "set") and res[0] in ("l", "set") else \
                    [(kv[j] if len(vs) > 1 else kv[1]) for kv in res[1]] if res[0] == "d" else []
                for x in subs:
                    if x[0] == "d" and x[1]:
                        deep_walk(rootmap, p.split(","), x, False, ["<item>"], fails, True)
    return fails


def shrink_value(t):
    k = t[0]
    if k in ("l",):
        for j in range(len(t[1])):
            yield ["l", t[1][:j] + t[1][j + 1:]]
        for j, x in enumerate(t[1]):
            for y in shrink_value(x):
                yield ["l", t[1][:j] + [y] + t[1][j + 1:]]
        if len(t[1]) == 1:
            yield t[1][0]
    elif k == "d":
        for j in range(len(t[1])):
            yield ["d", t[1][:j] + t[1][j + 1:]]
        for j, (a, b) in enumerate(t[1]):
            for y in shrink_value(b):
                yield ["d", t[1][:j] + [[a, y]] + t[1][j + 1:]]
    elif k == "s" and len(t[1]) > 1:
        for j in range(len(t[1])):
            yield ["s", t[1][:j] + t[1][j + 1:]]


def shrink_item(case):
    if "item" in case:
        for y in shrink_value(case["item"]):
            yield dict(case, item=y)
    ty, va, de = case["spec"]
    if de:
        yield dict(case, spec=[ty, va, ""])


def nontrivial_item(case, out):
    return "item" in case and case["item"][0] != "n"


def describe_item(case):
    ty, va, _ = case["spec"]
    return "%s|%s" % (ty, split_validator(va)[0] if ty not in ("dict", "event_handler") else "k:v")


HDR_ITEM = ("From Coq Require Import QArith.\nFrom C12 Require Import Base Model Ext.\nOpen Scope Z_scope.\n"
            "Definition M : machine := " + cmachine() + ".\n"
            "Definition run := xitem_run.\nDefinition out_eqb := item_out_eqb.\n")


# ==================================================================================================
# suite 3: sections (validate_config): synthetic specs with base specs, and sections of the real spec
KEYS = ["a", "b", "c", "dd", "name", "_priv", "__valid_in__", "x_y", "A"]


def gen_synth_spec(rng):
    spec = []
    used = set()
    for _ in range(rng.randrange(0, 6)):
        k = rng.choice(KEYS)
        if k in used:
            continue
        used.add(k)
        r = rng.random()
        if k.startswith("__"):
            spec.append([k, ["raw"]])
        elif r < 0.08:
            spec.append([k, ["ignore"]])
        elif r < 0.12:
            spec.append([k, ["nested"]])
        else:
            ent = gen_spec_entry(rng)
            if rng.random() < 0.7:
                ent[0] = "single"
                ent[1] = rng.choice(SCALAR_VALIDATORS)
                ent[2] = rng.choice(["", "None", "0", "1", "a", "false", "s1", "1s"])
            spec.append([k, ["item"] + ent])
    if rng.random() < 0.08:
        spec.append(["__allow_others__", ["raw"]])
    return spec


def merged_spec_py(specs):
    this = {}
    for elem in specs:
        base = dict((k, e) for k, e in elem)
        base.update(this)
        this = base
    return this


def gen_source_for(rng, merged):
    """mostly-valid config for a merged spec {key: entry}, then at most one perturbation"""
    src = {}
    for k, e in merged.items():
        if e[0] != "item":
            if rng.random() < 0.15:
                src[k] = rvalue(rng)
            continue
        if rng.random() < 0.55 or (e[3] == "" and rng.random() < 0.8):
            src[k] = item_for(rng, e[1], e[2])
    r = rng.random()
    if r < 0.25:
        src[rng.choice(["zz", "unknown", "_hidden", "A ", "", "aa", "b b", "x_z", "zz_", "_", "a_", "Name", "label"])] = rvalue(rng)
    elif r < 0.30:
        src[rng.choice([5, None, True, 1.5])] = rvalue(rng)
    elif r < 0.40 and merged:
        k = rng.choice(list(merged))
        src[k] = rvalue(rng)
    elif r < 0.46 and src:
        del src[rng.choice(list(src))]
    if rng.random() < 0.06:
        return rng.choice([None, "abc", "_", "", "a", 5, True, ["a"], [{"a": 1}], [5], list(src), 1.5])
    if rng.random() < 0.3:
        items = list(src.items())
        rng.shuffle(items)
        src = dict(items)
    return src


def real_bases(body):
    """the base specs MPF itself validates a section of this type with (device.py: "device",
    config_player.py: "config_player_common")"""
    t = body.get("__type__")
    if t == "device":
        return ["device"]
    if t == "config_player":
        return ["config_player_common"]
    return []


def gen_section(rng, tier, i):
    if i % 2 == 0:
        # every section of config_spec.yaml in turn (whole-spec coverage does not depend on the seed)
        rs = real_spec()
        sec = rs["sections"][(i // 2) % len(rs["sections"])]
        body = rs["spec"][sec]
        base = real_bases(body)
        r = rng.random()
        if r < 0.06:
            base = []
        elif r < 0.12:
            base = rng.choice([["device"], ["config_player_common"], ["device", "config_player_common"],
                               ["config_player_common", "device"]])
        merged = merged_spec_py([enc_spec(body)] + [enc_spec(rs["spec"][b]) for b in base])
        return {"real": sec, "base": base, "source": tagv(gen_source_for(rng, merged)),
                "add_missing": rng.random() < 0.9, "allow_invalid": rng.random() < 0.05}
    specs = [gen_synth_spec(rng) for _ in range(rng.choice([1, 1, 2, 2, 2, 3]))]
    merged = merged_spec_py(specs)
    return {"specs": specs, "source": tagv(gen_source_for(rng, merged)),
            "add_missing": rng.random() < 0.85, "allow_invalid": rng.random() < 0.08}


def perkey_outcomes(cv, merged, source_t, add_missing, allow_invalid):
    """The property's reading of a section validation, computed WITHOUT build_spec: every key is validated against
    the entry the section itself declares (base specs only contribute keys the section does not declare).
    merged: independent merge (merged_spec_py) of the specs as they were BEFORE the call.
    allow_invalid: `mpf: allow_invalid_config_sections` is a MACHINE-wide setting that check_for_invalid_sections reads
    at every nesting depth (subconfig values, nested sub-sections): the per-key re-validation has to run under the same
    setting as the validation it is compared with, else an unknown key inside a sub-config that the caller asked to
    tolerate is reported as `declared-spec-not-applied` (soak seed 12, corpus section.7)."""
    from mpf.core.config_validator import ValidationPath
    vfi = ValidationPath(ValidationPath(None, "sec"), "key")
    src = untag(source_t) if source_t[0] == "d" else {}
    res = {}
    mpf_cfg = cv.machine.config["mpf"]
    old = mpf_cfg["allow_invalid_config_sections"]
    mpf_cfg["allow_invalid_config_sections"] = bool(allow_invalid)
    try:
        for k, e in merged.items():
            if e[0] != "item" or k.startswith("_") or k == "":
                continue
            if k in src:
                res[k] = _outcome(cv.validate_config_item, list(e[1:]), vfi, src[k])
            elif add_missing:
                res[k] = _outcome(cv.validate_config_item, list(e[1:]), vfi)
    finally:
        mpf_cfg["allow_invalid_config_sections"] = old
    return res


def run_section(case):
    _need_rig()
    from mpf.core.config_validator import ConfigValidator
    machine = _RIG["rig"].machine
    if "real" in case:
        cv = _RIG["cv"]
        names = [case["real"]] + list(case["base"])
        base_arg = None if not case["base"] else case["base"][0] if len(case["base"]) == 1 else tuple(case["base"])
        spec_seen = [enc_spec(cv.config_spec[n]) for n in names]
    else:
        names = ["sec%d" % j for j in range(len(case["specs"]))]
        store = {n: dec_spec(s) for n, s in zip(names, case["specs"])}
        cv = ConfigValidator(machine, store)
        base_arg = None if len(names) == 1 else names[1] if len(names) == 2 else tuple(names[1:])
        spec_seen = [enc_spec(store[n]) for n in names]
    before = spec_fingerprint(cv.config_spec)
    source = untag(case["source"])
    old = machine.config["mpf"]["allow_invalid_config_sections"]
    machine.config["mpf"]["allow_invalid_config_sections"] = bool(case["allow_invalid"])
    try:
        out = _outcome(lambda: cv.validate_config(names[0], source, "name", base_arg, case["add_missing"]))
        # a second validation of the same source through the (now cached) merged spec
        out["again"] = _outcome(lambda: cv.validate_config(names[0], untag(case["source"]), "name", base_arg,
                                                           case["add_missing"]))
    finally:
        machine.config["mpf"]["allow_invalid_config_sections"] = old
    out["spec_changed"] = spec_fingerprint(cv.config_spec) != before
    # the merged spec the section has to be validated against, computed independently of build_spec from the specs as
    # they were before the call; what build_spec hands out (cached) is reported next to it
    expected = merged_spec_py(spec_seen)
    out["merged"] = [[k, e] for k, e in expected.items()]
    try:
        out["built"] = enc_spec(cv.build_spec(names[0], base_arg))
    except Exception as e:    # noqa
        out["built"] = None
    out["perkey"] = perkey_outcomes(cv, expected, case["source"], case["add_missing"], case["allow_invalid"])
    if "real" in case:
        out["spec_seen"] = spec_seen
        if out["spec_changed"] is False:
            out["spec_changed"] = spec_fingerprint(cv.config_spec) != _RIG["spec0"]
    else:
        out["spec_changed"] = out["spec_changed"] or spec_fingerprint(cv.config_spec) != \
            spec_fingerprint({n: dec_spec(s) for n, s in zip(names, case["specs"])})
    return out


def cspec(enc):
    def ce(e):
        if e[0] == "ignore":
            return "SIgnore"
        if e[0] == "item":
            return "(SItem %s %s %s)" % (cstr(e[1]), cstr(e[2]), cstr(e[3]))
        if e[0] == "nested":
            return "SNested"
        return "SRaw"
    return coqlist("(%s, %s)" % (cstr(k), ce(e)) for k, e in enc)


def coq_section(case, out):
    try:
        specs = out.get("spec_seen") if "real" in case else case["specs"]
        if "again" in out and (("ok" in out["again"]) != ("ok" in out)):
            pass      # reported by the oracle (cached-spec-differs); the model is compared with the first outcome
        if specs is None:
            return None
        merged = merged_spec_py(specs)
        src = case["source"]
        for k, e in merged.items():
            if not ascii_ok(k) or k == "":
                return None
            if e[0] == "item":
                if k.startswith("_"):
                    continue
                if not entry_modelled(e[1], e[2]) or not ascii_ok(e[3]) or not numeric_text_in_domain(e[3]) or \
                        gain_db_outside(e[1], e[2], None, e[3]):
                    return None
        if src[0] == "d":
            for kt, vt in src[1]:
                if kt[0] == "s" and kt[1] in merged and merged[kt[1]][0] == "item":
                    e = merged[kt[1]]
                    if not item_in_domain(e[1], e[2], vt):
                        return None
                elif kt[0] == "s" and kt[1] in merged and merged[kt[1]][0] == "nested":
                    return None
        o = out
        if "err" in out and any(e[0] == "item" and e[1] == "set" for e in merged.values()):
            return None
        mt = cmach(expr_table([src], [e[3] for e in merged.values() if e[0] == "item"],
                              [e[2] for e in merged.values() if e[0] == "item"]))
        return "((%s, %s, %s, %s, %s), %s)" % (mt, blit(case["allow_invalid"]), blit(case["add_missing"]),
                                                coqlist(cspec(s) for s in specs), cyv(src), cres(o, cyv, "yv"))
    except OutOfDomain:
        return None


def section_keys_plain(case, mk):
    """source is a dict whose keys are all strings that the merged spec knows as item/ignore entries (or that are
    private / tolerated): then the only things that can reject the config are the per-key validations"""
    src = case["source"]
    if src[0] == "n":
        return True
    if src[0] != "d":
        return False
    if any(e[0] == "raw" and not k.startswith("_") for k, e in mk.items()):
        return False
    for kt, _ in src[1]:
        if kt[0] != "s" or kt[1] == "":
            return False
        e = mk.get(kt[1])
        if e is None:
            if not (kt[1].startswith("_") or case["allow_invalid"] or "__allow_others__" in mk):
                return False
        elif e[0] not in ("item", "ignore") and not kt[1].startswith("_"):
            return False
    return True


def oracle_section(case, out):
    # a synthetic case ran against the store {sec0, sec1, ...}; a real-spec case against config_spec.yaml
    _SUBCFG_STORE[0] = None if "real" in case else {"sec%d" % j: sp for j, sp in enumerate(case.get("specs", []))}
    try:
        return _oracle_section(case, out)
    finally:
        _SUBCFG_STORE[0] = None


def _oracle_section(case, out):
    fails = []
    if out.get("spec_changed"):
        fails.append({"sig": "spec-modified", "what": "config_spec differs after validate_config"})
    merged = out.get("merged")
    if merged is None:
        return fails
    mk = {k: e for k, e in merged}
    again = out.get("again")
    if again is not None and ("ok" in again) != ("ok" in out) or \
            (again is not None and "ok" in again and json.dumps(again["ok"], sort_keys=True) != json.dumps(out["ok"], sort_keys=True)):
        fails.append({"sig": "cached-spec-differs",
                      "what": "validating the same source a second time (through the cached merged spec) gives %r, the "
                              "first time %r" % (again, {k: out[k] for k in ("ok", "err") if k in out})})
    perkey = out.get("perkey") or {}
    plain = section_keys_plain(case, mk)
    if "ok" not in out:
        # rejected: legitimate whenever some key is invalid for ITS OWN declaration; if every key validates against the
        # entry the section declares, the config was validated against something else than the declared spec
        if plain and perkey is not None and all("ok" in o for o in perkey.values()) and \
                not any(k == "" for k in mk):
            fails.append({"sig": "declared-spec-not-applied",
                          "what": "validate_config rejects (%s) a source in which every key is valid for the entry the "
                                  "section declares (independent merge of %r): %r" %
                                  (out.get("err"), case.get("real", "synthetic"), perkey)})
        return fails
    res = out["ok"]
    if res[0] != "d":
        fails.append({"sig": "section-not-dict", "what": "validate_config returned a %s" % res[0]})
        return fails
    rd = {}
    for kt, vt in res[1]:
        rd[json.dumps(kt)] = vt
    src = case["source"]
    src_vals = {kt[1]: vt for kt, vt in src[1] if kt[0] == "s"} if src[0] == "d" else {}
    # every provided key is still there
    if src[0] == "d":
        for kt, _ in src[1]:
            if json.dumps(kt) not in rd:
                fails.append({"sig": "provided-key-dropped", "what": "key %r of the source is not in the result" % (kt,)})
        # unknown keys are rejected
        if "__allow_others__" not in mk and not case["allow_invalid"]:
            for kt, _ in src[1]:
                if kt[0] == "s" and kt[1] not in mk and not kt[1].startswith("_"):
                    fails.append({"sig": "unknown-key-accepted",
                                  "what": "key %r is not in the spec but the config was accepted" % kt[1]})
    for k, e in mk.items():
        if e[0] == "ignore" or k.startswith("_"):
            continue
        vt = rd.get(json.dumps(["s", k]))
        if vt is None:
            if case["add_missing"]:
                fails.append({"sig": "spec-key-missing", "what": "spec key %r missing from the validated config" % k})
            continue
        if e[0] == "item" and k in perkey:
            pk = perkey[k]
            if "ok" not in pk or json.dumps(pk["ok"], sort_keys=True) != json.dumps(vt, sort_keys=True):
                fails.append({"sig": "declared-spec-not-applied",
                              "what": "key %r is declared %s (own declaration first, base specs fill in) and %s; validated "
                                      "on its own against that entry: %r, but validate_config returned %r" %
                                      (k, "|".join(e[1:]), "given as %r" % (src_vals[k],) if k in src_vals else "absent",
                                       pk, vt)})
                continue
        if e[0] == "item" and py_has_item_type(e[1], e[2], vt) is False and \
                pow2_defect_only(e[1], e[2], src_vals.get(k), e[3], vt):
            fails.append({"sig": "pow2-returns-unconverted",
                          "what": "key %r (%s) validated to %r: pow2 hands back the unconverted item" % (k, "|".join(e[1:]), vt)})
        elif e[0] == "item" and py_has_item_type(e[1], e[2], vt) is False and \
                gain_defect_only(e[1], e[2], src_vals.get(k), e[3], vt):
            fails.append({"sig": "gain-nan-unclamped",
                          "what": "key %r (%s) validated to %r: string_to_gain lets NaN through" % (k, "|".join(e[1:]), vt)})
        elif e[0] == "item" and py_has_item_type(e[1], e[2], vt) is False and \
                color_defect_only(e[1], e[2], src_vals.get(k), e[3], vt):
            fails.append({"sig": color_defect_only(e[1], e[2], src_vals.get(k), e[3], vt),
                          "what": "key %r (%s) validated to %r: the r,g,b list form of a colour is neither length- nor "
                                  "range-checked" % (k, "|".join(e[1:]), vt)})
        elif e[0] == "item" and py_has_item_type(e[1], e[2], vt) is False:
            fails.append({"sig": "ill-typed",
                          "what": "key %r (%s) validated to %r, which is not a value of the declared type" % (k, "|".join(e[1:]), vt)})
        if e[0] == "nested" and vt[0] != "l":
            fails.append({"sig": "ill-typed", "what": "key %r (list of sub-configs) validated to %r" % (k, vt)})
    return fails


def shrink_section(case):
    src = case["source"]
    for y in shrink_value(src):
        yield dict(case, source=y)
    if "specs" in case:
        for j, sp in enumerate(case["specs"]):
            for q in range(len(sp)):
                yield dict(case, specs=case["specs"][:j] + [sp[:q] + sp[q + 1:]] + case["specs"][j + 1:])
        if len(case["specs"]) > 1:
            yield dict(case, specs=case["specs"][:-1])


def nontrivial_section(case, out):
    return case["source"][0] == "d" and len(case["source"][1]) > 0


_COVERAGE = {"sections": set(), "types": {}}


def describe_section(case):
    """histogram label; also accumulates which sections of config_spec.yaml were validated in this run and
    appends the coverage to RULE (evidence)"""
    global RULE
    if "real" in case:
        try:
            rs = real_spec()
            if case["real"] not in _COVERAGE["sections"]:
                _COVERAGE["sections"].add(case["real"])
                t = str(rs["spec"][case["real"]].get("__type__", "-"))
                _COVERAGE["types"][t] = _COVERAGE["types"].get(t, 0) + 1
            RULE = RULE_BASE + "  SECTION COVERAGE this run: %d of %d sections of config_spec.yaml validated (by __type__: %s)%s" % (
                len(_COVERAGE["sections"]), len(rs["sections"]),
                ", ".join("%s %d" % kv for kv in sorted(_COVERAGE["types"].items())),
                "" if len(_COVERAGE["sections"]) == len(rs["sections"]) else
                "; not reached: " + ", ".join(sorted(set(rs["sections"]) - _COVERAGE["sections"]))[:400])
        except Exception:     # noqa  (coverage reporting must never break a run)
            pass
        return "real %s%s" % (case.get("_type", ""), "base=" + "+".join(case["base"]) if case.get("base") else "no base")
    return "synthetic" + (" %d specs" % len(case.get("specs", [])))


HDR_SECTION = ("From Coq Require Import QArith.\nFrom C12 Require Import Base Model.\nOpen Scope Z_scope.\n"
               "Definition M : machine := " + cmachine() + ".\n"
               "Definition run := section_run.\nDefinition out_eqb := section_out_eqb.\n")

# ==================================================================================================
# suite 4: histories -- several validations in a row against ONE validator object (shared config_spec, shared
# build_spec lru_cache), sections inheriting from one another in varying base orders
STORE_NAMES = ["alpha", "beta", "gamma", "device"]


def gen_store(rng, tier, i):
    names = STORE_NAMES[:rng.choice([2, 3, 3, 4])]
    store = [[n, gen_synth_spec(rng)] for n in names]
    # make overriding keys likely: a later section redeclares a key of an earlier one with another entry
    for j in range(1, len(store)):
        prev = [ke for ke in store[j - 1][1] if ke[1][0] == "item" and not ke[0].startswith("_")]
        if prev and rng.random() < 0.7:
            k = rng.choice(prev)[0]
            ent = ["item", "single", rng.choice(["int_or_token", "int", "str", "ms", "bool", "float(0,1)", "enum(a,b,none)"]),
                   rng.choice(["None", "0", "1", "a", ""])]
            store[j][1] = [ke for ke in store[j][1] if ke[0] != k] + [[k, ent]]
    steps = []
    for _ in range(rng.randrange(2, 6)):
        if steps and rng.random() < 0.25:
            nm = list(rng.choice(steps)["names"])          # the same combination again: cache hit
        else:
            nm = rng.sample(names, rng.choice([1, 2, 2, 3]) if len(names) >= 3 else rng.choice([1, 2]))
            if rng.random() < 0.04:
                nm.append("nosuch")
        merged = merged_spec_py([dict(store)[n] for n in nm if n in dict(store)])
        steps.append({"names": nm, "source": tagv(gen_source_for(rng, merged)), "add_missing": rng.random() < 0.85})
    return {"store": store, "steps": steps, "allow_invalid": rng.random() < 0.05}


def run_store(case):
    _need_rig()
    from mpf.core.config_validator import ConfigValidator
    machine = _RIG["rig"].machine
    sd = {n: dec_spec(sp) for n, sp in case["store"]}
    cv = ConfigValidator(machine, sd)
    pristine = spec_fingerprint({n: dec_spec(sp) for n, sp in case["store"]})
    old = machine.config["mpf"]["allow_invalid_config_sections"]
    machine.config["mpf"]["allow_invalid_config_sections"] = bool(case["allow_invalid"])
    outs = []
    try:
        for st in case["steps"]:
            nm = st["names"]
            base_arg = None if len(nm) == 1 else nm[1] if len(nm) == 2 else tuple(nm[1:])
            out = _outcome(lambda: cv.validate_config(nm[0], untag(st["source"]), "name", base_arg, st["add_missing"]))
            out["spec_changed"] = spec_fingerprint(cv.config_spec) != pristine
            if all(n in sd for n in nm):
                expected = merged_spec_py([enc for n in nm for (n2, enc) in case["store"] if n2 == n])
                out["merged"] = [[k, e] for k, e in expected.items()]
                out["perkey"] = perkey_outcomes(cv, expected, st["source"], st["add_missing"], case["allow_invalid"])
            else:
                out["merged"] = None
            outs.append(out)
    finally:
        machine.config["mpf"]["allow_invalid_config_sections"] = old
    return {"steps": outs}


def _step_case(case, j):
    st = case["steps"][j]
    return {"specs": [dict(case["store"]).get(n, []) for n in st["names"]], "source": st["source"],
            "add_missing": st["add_missing"], "allow_invalid": case["allow_invalid"]}


def oracle_store(case, out):
    fails = []
    _SUBCFG_STORE[0] = {n: sp for n, sp in case["store"]}
    try:
        for j, o in enumerate(out["steps"]):
            for f in _oracle_section(_step_case(case, j), o):
                fails.append({"sig": f["sig"], "what": "step %d of %d (%s): %s" % (j + 1, len(out["steps"]),
                                                                             "+".join(case["steps"][j]["names"]), f["what"])})
    finally:
        _SUBCFG_STORE[0] = None
    return fails


def coq_store(case, out):
    try:
        sd = dict(case["store"])
        terms = []
        for j, (st, o) in enumerate(zip(case["steps"], out["steps"])):
            if all(n in sd for n in st["names"]):
                sub = _step_case(case, j)
                if coq_section(sub, dict(o, spec_seen=sub["specs"])) is None:
                    return None
            else:
                cyv(st["source"])
            terms.append("(%s, %s, %s)" % (blit(st["add_missing"]), coqlist(cstr(n) for n in st["names"]), cyv(st["source"])))
        ents = [e for _, sp in case["store"] for _, e in sp if e[0] == "item"]
        mt = cmach(expr_table([st["source"] for st in case["steps"]], [e[3] for e in ents], [e[2] for e in ents]))
        return "((%s, %s, %s, %s), %s)" % (
            mt, blit(case["allow_invalid"]), coqlist("(%s, %s)" % (cstr(n), cspec(sp)) for n, sp in case["store"]),
            coqlist(terms), coqlist(cres(o, cyv, "yv") for o in out["steps"]))
    except OutOfDomain:
        return None


def shrink_store(case):
    for j in range(len(case["steps"])):
        if len(case["steps"]) > 1:
            yield dict(case, steps=case["steps"][:j] + case["steps"][j + 1:])
    for j, st in enumerate(case["steps"]):
        for y in shrink_value(st["source"]):
            yield dict(case, steps=case["steps"][:j] + [dict(st, source=y)] + case["steps"][j + 1:])
    for j, (n, sp) in enumerate(case["store"]):
        for q in range(len(sp)):
            yield dict(case, store=case["store"][:j] + [[n, sp[:q] + sp[q + 1:]]] + case["store"][j + 1:])


def nontrivial_store(case, out):
    return len(case["steps"]) >= 2 and any(len(st["names"]) > 1 for st in case["steps"])


def describe_store(case):
    seen = set()
    hit = False
    for st in case["steps"]:
        t = tuple(st["names"])
        hit = hit or t in seen
        seen.add(t)
    return "%d steps%s" % (len(case["steps"]), " cache-hit" if hit else "")


HDR_STORE = ("From Coq Require Import QArith.\nFrom C12 Require Import Base Model.\nOpen Scope Z_scope.\n"
             "Definition M : machine := " + cmachine() + ".\n"
             "Definition run := store_run.\nDefinition out_eqb := store_out_eqb.\n")

# ==================================================================================================
# suite 5: nested configurations -- subconfig(..) validators (single / list / dict of sub-configs) and nested
# list-of-dict sub-sections, validated recursively; unknown / misspelled keys at depth >= 2
DEPTH_SKIP = ("pow2", "gain", "color", "kivycolor", "color_or_token")     # recorded findings: judged by the item suite


def _sub_values(ty, va, vt):
    """[(subconfig parameter, validated sub-config)] of an entry's validated value"""
    vs = va.split(":")[:2] if ty in ("dict", "event_handler") else [va]
    out = []
    for j, v in enumerate(vs):
        n, p = split_validator(v)
        if n != "subconfig" or not p:
            continue
        if ty == "single":
            out.append((p, vt, None))
        elif ty in ("list", "set") and vt[0] in ("l", "set"):
            out.extend((p, x, i) for i, x in enumerate(vt[1]))
        elif ty in ("dict", "event_handler") and vt[0] == "d" and len(vs) > 1 and j == 1:
            out.extend((p, kv[1], kv[0]) for kv in vt[1])
    return out


def deep_walk(rootmap, names, t, allow_invalid, path, fails, add_missing, src_t=None, depth=0):
    """The property's predicate on a validated config at EVERY nesting depth, independent of the validator and of the
    model: a dict; no key outside the (independently merged) spec; every provided key kept; every non-private key of
    the spec present and of its declared type; sub-configs and nested sub-sections likewise."""
    if depth > 8:
        return
    bodies = [tree_get(rootmap, n) for n in names]
    if any(b is None for b in bodies):
        return
    merged = merged_spec_py(bodies)
    where = ":".join(str(x) for x in path) or "<top>"
    if t[0] != "d":
        fails.append({"sig": "section-not-dict", "what": "validated config at %s is a %s" % (where, t[0])})
        return
    have = {json.dumps(k): v for k, v in t[1]}
    if src_t is not None and src_t[0] == "d":
        for kt, _ in src_t[1]:
            if json.dumps(kt) not in have:
                fails.append({"sig": "provided-key-dropped",
                              "what": "key %r provided at %s is not in the validated config" % (kt, where)})
    if "__allow_others__" not in merged and not allow_invalid:
        for kt, _ in t[1]:
            if kt[0] == "s" and kt[1] not in merged and not kt[1].startswith("_"):
                fails.append({"sig": "unknown-key-accepted",
                              "what": "key %r at %s (depth %d) is not in the spec of %s but the config was accepted "
                                      "and the key kept" % (kt[1], where, depth, "+".join(names))})
    src_vals = {kt[1]: vt for kt, vt in src_t[1] if kt[0] == "s"} if src_t is not None and src_t[0] == "d" else {}
    for k, e in merged.items():
        if e[0] in ("ignore", "raw") or k.startswith("_") or k == "":
            continue
        vt = have.get(json.dumps(["s", k]))
        if vt is None:
            if add_missing:
                fails.append({"sig": "spec-key-missing",
                              "what": "spec key %r missing from the validated config at %s (depth %d)" % (k, where, depth)})
            continue
        if e[0] == "nested":
            if vt[0] != "l":
                fails.append({"sig": "ill-typed", "what": "key %r at %s (list of sub-configs) validated to %r" % (k, where, vt)})
                continue
            sv = src_vals.get(k)
            for j, x in enumerate(vt[1]):
                sx = sv[1][j] if sv is not None and sv[0] == "l" and len(sv[1]) == len(vt[1]) else None
                deep_walk(rootmap, [names[0] + ":" + k], x, allow_invalid, path + [k, j], fails, True, sx, depth + 1)
            continue
        subs = _sub_values(e[1], e[2], vt)
        if subs:
            sv = src_vals.get(k)
            for prm, x, idx in subs:
                sx = None
                if sv is not None:
                    if idx is None:
                        sx = sv
                    elif isinstance(idx, int) and sv[0] == "l" and len(sv[1]) == len(vt[1]):
                        sx = sv[1][idx]
                    elif not isinstance(idx, int) and sv[0] == "d":
                        sx = dict((json.dumps(a), b) for a, b in sv[1]).get(json.dumps(idx))
                if x[0] == "d" and not x[1] and not (sx is not None and sx[0] == "d"):
                    continue          # subconfig of None is {} ("not given"); of a provided dict it is a completed config
                deep_walk(rootmap, prm.split(","), x, allow_invalid, path + [k] + ([] if idx is None else [json.dumps(idx)]),
                          fails, True, sx, depth + 1)
            continue
        if depth == 0:
            continue                  # the top level is judged by the caller (known findings classified there)
        names_k = [split_validator(x)[0] for x in (e[2].split(":")[:2] if e[1] in ("dict", "event_handler") else [e[2]])]
        if any(x in DEPTH_SKIP for x in names_k):
            continue
        if py_has_item_type(e[1], e[2], vt) is False:
            fails.append({"sig": "ill-typed",
                          "what": "key %r at %s (depth %d, %s) validated to %r, which is not a value of the declared type" %
                                  (k, where, depth, "|".join(e[1:]), vt)})


def _deep_sections():
    rs = real_spec()
    if "deep" not in rs:
        out = []
        for sec in rs["sections"]:
            enc = enc_spec(rs["spec"][sec])
            if any(e[0] == "nested" for _, e in enc) or _refs_of_body(enc) or any(e[0] == "item" and "dict(" in e[2] for _, e in enc):
                out.append(sec)
        rs["deep"] = out
    return rs["deep"]


def safe_item(rng, ty, va, rootmap, depth):
    """a value that IS valid for the entry (so that only the planted perturbation decides), or `SKIP`"""
    vs = va.split(":")[:2] if ty in ("dict", "event_handler") else [va]

    def one(v):
        n, p = split_validator(v)
        if n.endswith("_or_token"):
            n = n[:-9]
        if n in ("str", "lstr", "event_posted", "event_handler"):
            return rng.choice(["abc", "x1", "ev_a"])
        if n in ("int", "num", "float", "template_int", "template_float", "template_ms", "template_secs"):
            lo = 1
            if p and "," in p:
                a, b = p.split(",")[:2]
                try:
                    lo = float(a) if a != "NONE" else (float(b) if b != "NONE" else 1)
                except ValueError:
                    lo = 1
            return int(lo) if float(lo) == int(lo) else lo
        if n in ("bool", "boolean", "bool_int", "template_bool"):
            return rng.choice([True, False])
        if n in ("ms", "secs"):
            return rng.choice(["1s", "200ms", 2])
        if n == "enum":
            return (p or "").split(",")[0]
        if n == "machine":
            return MACHINE[p][0] if MACHINE.get(p) else SKIP
        if n == "pow2":
            return 8
        if n == "list":
            return "a, b"
        if n == "dict" and not p:
            return {}
        if n == "gain":
            return 0.5
        if n in ("color", "kivycolor"):
            return rng.choice(["red", "ff0000", "0, 128, 255"])
        if n == "int_from_hex":
            return "1f"
        if n == "template_str":
            return "abc"
        if n == "subconfig" and p and depth < 3:
            return gen_deep_source(rng, rootmap, p.split(","), depth + 1)
        return SKIP
    if ty in ("dict", "event_handler"):
        if ty == "event_handler":
            return rng.choice(["ev1", "ev1, ev2", {"ev1": "1s"}, "ev1{a==1}, ev2{b==2}"])
        if len(vs) < 2:
            return SKIP
        kn = split_validator(vs[0])[0]
        d = {}
        for j in range(rng.choice([0, 1, 1, 2])):
            k = one(vs[0])
            if k is SKIP or isinstance(k, (dict, list)):
                return SKIP
            if kn == "int":
                k = rng.choice([j + 1, str(j + 1)])
            elif isinstance(k, str):
                k = k + str(j)
            v = one(vs[1])
            if v is SKIP:
                return SKIP
            d[k] = v
        return d
    if ty == "single":
        return one(va)
    if ty in ("list", "set"):
        xs = [one(va) for _ in range(rng.choice([0, 1, 2]))]
        if any(x is SKIP for x in xs):
            return SKIP
        if xs and all(isinstance(x, str) for x in xs) and rng.random() < 0.4 and split_validator(va)[0] != "list":
            return ", ".join(xs)
        return xs
    return SKIP


SKIP = object()


def gen_deep_source(rng, rootmap, names, depth=0):
    bodies = [tree_get(rootmap, n) for n in names]
    if any(b is None for b in bodies):
        return {}
    merged = merged_spec_py(bodies)
    src = {}
    for k, e in merged.items():
        if k.startswith("_") or e[0] in ("ignore", "raw"):
            continue
        if e[0] == "nested":
            if rng.random() < 0.7 and depth < 3:
                src[k] = [gen_deep_source(rng, rootmap, [names[0] + ":" + k], depth + 1)
                          for _ in range(rng.choice([1, 1, 2]))]
            continue
        required = e[3] == ""
        is_sub = "subconfig" in e[2] or "dict(" in e[2]
        if required or rng.random() < (0.75 if is_sub else 0.12):
            v = safe_item(rng, e[1], e[2], rootmap, depth)
            if v is not SKIP:
                src[k] = v
    return src


def _dicts_at_depth(v, depth, acc, spec_keys_of):
    """all dict nodes of the source that are sub-configs (depth >= 1), with their depth"""
    if isinstance(v, dict):
        acc.append((depth, v))
        for x in v.values():
            _dicts_at_depth(x, depth + 1, acc, spec_keys_of)
    elif isinstance(v, list):
        for x in v:
            _dicts_at_depth(x, depth, acc, spec_keys_of)


def misspell(rng, k):
    r = rng.random()
    if len(k) > 2 and r < 0.3:
        j = rng.randrange(1, len(k))
        return k[:j] + k[j + 1:]
    if r < 0.5:
        return k + rng.choice("sex1")
    if r < 0.65:
        return k.capitalize() if k.capitalize() != k else k.upper()
    if len(k) > 2 and r < 0.8:
        j = rng.randrange(0, len(k) - 1)
        return k[:j] + k[j + 1] + k[j] + k[j + 2:]
    return rng.choice(["zz", "unknown", "valu", "nam", "x_z"])


SYNTH_DEEP = [
    # name -> spec tree (enc form); s0 refers to s1/s2 in every item type, s1 has a nested sub-section and refers to s2
    ["s0", [["a", ["item", "single", "int", "0"]],
            ["one", ["item", "single", "subconfig(s1)", "None"]],
            ["many", ["item", "list", "subconfig(s1)", "None"]],
            ["byname", ["item", "dict", "str:subconfig(s2)", "None"]],
            ["bynum", ["item", "dict", "int:subconfig(s1)", "None"]],
            ["based", ["item", "single", "subconfig(s2,s3)", "None"]],
            ["steps", ["nested", [["label", ["item", "single", "str", ""]],
                                  ["value", ["item", "single", "int(0,10)", "1"]],
                                  ["inner", ["item", "single", "subconfig(s2)", "None"]]]]],
            ["col", ["item", "single", "kivycolor", "None"]],
            ["lut", ["item", "single", "dict(str:int)", "None"]]]],
    ["s1", [["name", ["item", "single", "str", ""]],
            ["show", ["item", "single", "str", "None"]],
            ["speed", ["item", "single", "float(0,NONE)", "1"]],
            ["deeper", ["item", "single", "subconfig(s2)", "None"]],
            ["layers", ["nested", [["sound", ["item", "single", "str", ""]],
                                   ["volume", ["item", "single", "gain", "0.5"]]]]]]],
    ["s2", [["value", ["item", "single", "int", "0"]],
            ["events", ["item", "event_handler", "event_handler:ms", "None"]],
            ["tags", ["item", "list", "str", "None"]],
            ["more", ["item", "list", "subconfig(s3)", "None"]]]],
    ["s3", [["value", ["item", "single", "str", "x"]],
            ["label", ["item", "single", "str", "%"]],
            ["flag", ["item", "single", "bool", "false"]]]],
    ["open", [["__allow_others__", ["raw"]], ["sub", ["item", "single", "subconfig(s3)", "None"]]]],
]


def gen_deep(rng, tier, i):
    if i % 5 in (0, 2, 3):
        secs = _deep_sections()
        sec = secs[(i // 5 * 3 + (i % 5 > 0) + (i % 5 > 2)) % len(secs)]
        rs = real_spec()
        body = rs["spec"][sec]
        base = real_bases(body)
        names = [sec] + base
        rootmap = {n: b for n, b in spec_closure(rs["spec"], names)}
        case = {"real": sec, "names": names}
    else:
        rootmap = {n: b for n, b in SYNTH_DEEP}
        names = [rng.choice(["s0", "s0", "s0", "s1", "open"])]
        case = {"store": SYNTH_DEEP, "names": names}
    src = gen_deep_source(rng, rootmap, names)
    nodes = []
    _dicts_at_depth(src, 0, nodes, None)
    deep_nodes = [(d, n) for d, n in nodes if d >= 1]
    r = rng.random()
    planted = None
    if deep_nodes and r < 0.55:
        d, node = rng.choice(deep_nodes)
        keys = [k for k in node if isinstance(k, str)]
        bad = misspell(rng, rng.choice(keys)) if keys and rng.random() < 0.75 else rng.choice(["zz", "unknown", "shw", "valu"])
        if bad not in node:
            node[bad] = rng.choice([1, "x", True, "1s"])
            planted = [d, bad]
    elif r < 0.65:
        src[rng.choice(["zz", "unknown", "Label", "_hidden"])] = 1
    elif deep_nodes and r < 0.75:
        d, node = rng.choice(deep_nodes)
        if node:
            k = rng.choice(list(node))
            node[k] = rvalue(rng, 1)
    case.update({"source": tagv(src), "add_missing": rng.random() < 0.9, "allow_invalid": rng.random() < 0.04,
                 "planted": planted})
    return case


def run_deep(case):
    _need_rig()
    from mpf.core.config_validator import ConfigValidator
    machine = _RIG["rig"].machine
    names = case["names"]
    if "real" in case:
        cv = _RIG["cv"]
        before = _RIG["spec0"]
    else:
        store = {n: dec_spec(b) for n, b in case["store"]}
        cv = ConfigValidator(machine, store)
        before = spec_fingerprint({n: dec_spec(b) for n, b in case["store"]})
    root = spec_closure(cv.config_spec, names)
    base_arg = None if len(names) == 1 else names[1] if len(names) == 2 else tuple(names[1:])
    old = machine.config["mpf"]["allow_invalid_config_sections"]
    machine.config["mpf"]["allow_invalid_config_sections"] = bool(case["allow_invalid"])
    try:
        out = _outcome(lambda: cv.validate_config(names[0], untag(case["source"]), "name", base_arg, case["add_missing"]))
    finally:
        machine.config["mpf"]["allow_invalid_config_sections"] = old
    out["spec_changed"] = spec_fingerprint(cv.config_spec) != before
    out["root"] = root
    return out


def coq_deep(case, out):
    try:
        root = out.get("root")
        if not root:
            return None
        rootmap = {n: b for n, b in root}
        src = case["source"]
        if not deep_in_domain(rootmap, case["names"], src):
            return None
        ents = [e for _, b in root for e in _all_entries(b)]
        mt = cmach(expr_table([src], [e[3] for e in ents], [e[2] for e in ents]))
        return "((%s, %s, %s, %s, %s, %s), %s)" % (
            croot(root), mt, blit(case["allow_invalid"]), blit(case["add_missing"]),
            coqlist(cstr(n) for n in case["names"]), cyv(src), cres(out, cyv, "yv"))
    except OutOfDomain:
        return None


def oracle_deep(case, out):
    fails = []
    if out.get("spec_changed"):
        fails.append({"sig": "spec-modified", "what": "config_spec differs after a nested validate_config"})
    if "ok" in out and out.get("root"):
        rootmap = {n: b for n, b in out["root"]}
        _SUBCFG_STORE[0] = rootmap        # the store the code used (synthetic or the closure of the real sections)
        try:
            deep_walk(rootmap, case["names"], out["ok"], case["allow_invalid"], [], fails, case["add_missing"], case["source"])
        finally:
            _SUBCFG_STORE[0] = None
    return fails


def shrink_deep(case):
    for y in shrink_value(case["source"]):
        yield dict(case, source=y)


def nontrivial_deep(case, out):
    return case.get("planted") is not None or "ok" in out


def describe_deep(case):
    return ("real" if "real" in case else "synthetic") + (" unknown-key@depth%d" % case["planted"][0] if case.get("planted") else "")


HDR_DEEP = ("From Coq Require Import QArith.\nFrom C12 Require Import Base Model Ext.\nOpen Scope Z_scope.\n"
            "Definition M : machine := " + cmachine() + ".\n"
            "Definition run := deep_run.\nDefinition out_eqb := section_out_eqb.\n")


# ==================================================================================================
# suite 6: config-player entries (variable_player, score_queue_player, event_player): name{condition}|number keys
PRINTABLE = "".join(chr(c) for c in range(32, 127))
LEGAL = "abcdefghijklmnopqrstuvwxyzABCDEFGHIJKLMNOPQRSTUVWXYZ0123456789_-"
CONDS = ["x==1", "a", "current_player.ball==1", "1 +", "x}", "a{b", "", "a, b", "not a", "a}|5", "(a)", "x if y else z",
         "device.switches.s1.state==1", "x:y", "a|b", " "]
NUMBERS = ["5", "2s", "block", "1.5s", "x", "200ms", "0", " 3", "1:2", "2{x}"]


def gen_key(rng):
    r = rng.random()
    if r < 0.08:
        return "".join(rng.choice(PRINTABLE) for _ in range(rng.randrange(1, 8)))
    name = "".join(rng.choice(LEGAL) for _ in range(rng.randrange(1, 7)))
    if rng.random() < 0.5:
        # one character of the full printable alphabet at ANY position of the name (also the last and the first)
        j = rng.randrange(0, len(name) + 1)
        c = rng.choice(PRINTABLE)
        name = name[:j] + c + name[j + (rng.random() < 0.5):]
    key = name
    if rng.random() < 0.4:
        key += "{" + rng.choice(CONDS) + "}"
    if rng.random() < 0.25:
        key += rng.choice("|:") + rng.choice(NUMBERS)
    return key


def gen_player(rng, tier, i):
    player = rng.choice(["variable_player", "score_queue_player_player", "event_player", "event_player"])
    keys = [gen_key(rng) for _ in range(rng.choice([1, 1, 1, 2, 3]))]
    if player != "event_player":
        settings = {k: rng.choice([100, 5, {"int": 5}]) for k in keys}
        if rng.random() < 0.02:
            settings = rng.choice(["abc", 5, ["a"], None])
    else:
        r = rng.random()
        if r < 0.4:
            settings = {k: {} for k in keys}
        elif r < 0.7:
            settings = list(keys)
        else:
            settings = ", ".join(keys)
    return {"player": player, "settings": tagv(settings)}


def _cond_tag(c):
    return tagv(c)


def run_player(case):
    _need_rig()
    machine = _RIG["rig"].machine
    player = getattr(machine, case["player"])
    settings = untag(case["settings"])
    try:
        res = player.validate_config_entry(settings, "entry")
    except BaseException as e:     # noqa
        if isinstance(e, (KeyboardInterrupt, SystemExit)):
            raise
        from vlib import CaseTimeout
        if isinstance(e, CaseTimeout):
            raise
        return {"err": err_name(e)}
    if case["player"] == "event_player":
        ok = ["d", [[tagv(name), ["l", [["l", [tagv(x["condition"]), tagv(x["number"])]] for x in lst]]]
                    for name, lst in res.items()]]
    else:
        ok = ["d", [[tagv(name), tagv(v.get("condition"))] for name, v in res.items()]]
    return {"ok": ok}


def _player_keys(case):
    st = case["settings"]
    if st[0] == "d":
        return [k for k, _ in st[1]]
    if st[0] == "l":
        return list(st[1])
    return None


def coq_player(case, out):
    try:
        st = case["settings"]
        if has_text(st, lambda x: not ascii_ok(x) or "\n" in x or "\r" in x):
            return None
        is_event = case["player"] == "event_player"
        if is_event:
            if st[0] == "l" and not all(x[0] in ("s", "n") for x in st[1]):
                return None
            if st[0] not in ("s", "l", "d"):
                return None
            if st[0] == "s" and st[1] == "":
                return None
        elif st[0] == "d" and not all(k[0] == "s" for k, _ in st[1]):
            return None
        elif st[0] == "n":
            return None              # _parse_config is not reached; validate_config_entry raises on settings.items()
        texts = set()
        _texts_of(st, texts)
        cands = set()
        for x in list(texts) + [y for t in texts for y in EV_RE.findall(t)]:
            i0 = x.find("{")
            if i0 >= 0:
                for j in range(i0 + 1, len(x)):
                    if x[j] == "}":
                        cands.add(x[i0 + 1:j])
            for y in re.split(r"[|:]", x)[1:]:
                cands.add(y)
        table = []
        for x in sorted(cands):
            try:
                import warnings
                with warnings.catch_warnings():
                    warnings.simplefilter("ignore")
                    ast.parse(x, mode="eval")
                table.append(x)
            except SyntaxError:
                pass
            except Exception:     # noqa
                return None
        if has_text(st, lambda x: not numeric_text_in_domain(x)):
            return None
        # values of a dict are not part of the model (always valid): only the keys are handed over
        if st[0] == "d":
            st = ["d", [[k, ["n"]] for k, _ in st[1]]]
        return "((%s, %s, %s), %s)" % (cmach(table), blit(is_event), cyv(st), cres(out, cyv, "yv"))
    except OutOfDomain:
        return None


NAME_RE = re.compile(r"[0-9a-zA-Z_-]+\Z")


def oracle_player(case, out):
    """ill-formed entries are rejected: an accepted entry has only well-formed names, and every provided key whose name
    part (up to the first `{`, `|` or `:`) is ill-formed leads to a rejection"""
    fails = []
    if "ok" not in out:
        return fails
    is_event = case["player"] == "event_player"
    for k, _ in out["ok"][1]:
        if k[0] != "s" or (not NAME_RE.match(k[1]) and not (is_event and "(" in k[1])):
            fails.append({"sig": "ill-formed-entry-accepted",
                          "what": "%s.validate_config_entry returned the entry name %r" % (case["player"], k)})
    keys = _player_keys(case)
    if keys is None and case["settings"][0] == "s" and is_event:
        want = expected_event_elements(case["settings"][1])
        keys = [["s", w] for w in want] if want is not None else None
        if want is not None:
            got = [k[1] for k, _ in out["ok"][1]]
            exp = []
            for w in want:
                nm = w if "(" in w else re.split(r"[{|:]", w)[0]
                if nm not in exp:
                    exp.append(nm)
            if sorted(exp) != sorted(got):
                fails.append({"sig": "list-element-lost",
                              "what": "event_player express config %r provides the events %r, validated entry has %r" %
                                      (case["settings"][1], want, got)})
    for k in keys or []:
        if k[0] != "s" or (is_event and "(" in k[1]):
            continue
        name = re.split(r"[{|:]", k[1])[0]
        if not NAME_RE.match(name):
            fails.append({"sig": "ill-formed-entry-accepted",
                          "what": "%s accepted the entry %r whose name %r is not letters/digits/dash/underscore: %r" %
                                  (case["player"], k[1], name, out["ok"])})
    return fails


def shrink_player(case):
    st = case["settings"]
    for y in shrink_value(st):
        yield dict(case, settings=y)
    if st[0] == "d":
        for j, (k, v) in enumerate(st[1]):
            if k[0] == "s" and len(k[1]) > 1:
                for q in range(len(k[1])):
                    yield dict(case, settings=["d", st[1][:j] + [[["s", k[1][:q] + k[1][q + 1:]], v]] + st[1][j + 1:]])


def nontrivial_player(case, out):
    return True


def describe_player(case):
    return case["player"] + " " + case["settings"][0]


HDR_PLAYER = ("From Coq Require Import QArith.\nFrom C12 Require Import Base Model Player.\nOpen Scope Z_scope.\n"
              "Definition M : machine := " + cmachine() + ".\n"
              "Definition run := player_run.\nDefinition out_eqb := player_out_eqb.\n")

SUITES = [
    Suite("time", gen_time, run_time, HDR_TIME, coq_time, oracle_time, shrink_time, nontrivial_time,
          {"quick": 2000, "thorough": 100000}, describe=describe_time, shard=500),
    Suite("item", gen_item, run_item, HDR_ITEM, coq_item, oracle_item, shrink_item, nontrivial_item,
          {"quick": 3500, "thorough": 120000}, worker_init=rig_init, describe=describe_item, shard=500),
    Suite("section", gen_section, run_section, HDR_SECTION, coq_section, oracle_section, shrink_section,
          nontrivial_section, {"quick": 1200, "thorough": 40000}, worker_init=rig_init, describe=describe_section,
          shard=300),
    Suite("store", gen_store, run_store, HDR_STORE, coq_store, oracle_store, shrink_store, nontrivial_store,
          {"quick": 300, "thorough": 8000}, worker_init=rig_init, describe=describe_store, shard=250),
    Suite("deep", gen_deep, run_deep, HDR_DEEP, coq_deep, oracle_deep, shrink_deep, nontrivial_deep,
          {"quick": 450, "thorough": 12000}, worker_init=rig_init, describe=describe_deep, shard=115),
    Suite("player", gen_player, run_player, HDR_PLAYER, coq_player, oracle_player, shrink_player, nontrivial_player,
          {"quick": 900, "thorough": 30000}, worker_init=rig_init, describe=describe_player, shard=450),
]


# development aid: C12_ONLY=item,deep restricts a run to the named suites (never set by ./check or the integrator)
if os.environ.get("C12_ONLY"):
    SUITES = [x for x in SUITES if x.name in os.environ["C12_ONLY"].split(",")]


def widened_search(seed):
    """oracle-only sweep used when a proof / translation / correspondence breaks without a failing input:
    every n/1000 for n < 20000 with every suffix through the time oracle"""
    from mpf.core.utility_functions import Util
    for n in range(0, 20000):
        for suf in SUFFIXES:
            txt = ("%d" % n if suf in ("ms", "msec") else "%d.%03d" % (n // 1000, n % 1000)) + suf
            case = {"v": ["s", txt]}
            out = {"ms": _outcome(Util.string_to_ms, txt), "secs": _outcome(Util.string_to_secs, txt)}
            fails = oracle_time(case, out)
            if fails:
                return {"sig": fails[0]["sig"], "what": fails[0]["what"], "case": case, "suite": "time", "impl": out}
    return None


RULE_BASE = ("time: strings <decimal><suffix> (65% d.ddd, plus integers, long fractions, exponents, underscores, whitespace, "
             "inf/nan, junk) x suffix ms/msec/s/sec/m/h/d in random letter case, and non-string inputs; non-trivial = digits "
             "and a letter suffix.  item: 30% entries drawn from the real config_spec.yaml (all sections), 70% synthetic "
             "type|validator|default over every modelled validator (ranges, enums with case folding, machine(...) device "
             "references, _or_token, template_int/float/bool/secs/ms/str, gain, malformed validators) and item type; the item is "
             "mostly-valid for the validator (boundary values lo, hi, lo-1, hi+0.001, NaN, inf, numeric text with "
             "whitespace/sign/underscore; template texts that parse / do not parse as Python expressions, '(..)' and '{..}' "
             "forms; gains in/out of range, NaN, dB texts; event strings with {conditions} and |priorities) or an arbitrary "
             "nested YAML value; 12% absent (default / required).  section: every even case takes the NEXT section of "
             "config_spec.yaml in turn (all sections every run, 2.7x in the quick tier) with the base spec MPF uses for its "
             "__type__ (device -> 'device', config_player -> 'config_player_common'; 12% other / no / two bases), odd cases "
             "synthetic specs with 1-3 base specs over a small key set (overriding keys frequent); mostly-valid source with one "
             "perturbation (unknown key incl. _private / empty / non-string keys, wrong type, deleted key, non-dict source); "
             "each source is validated twice (second time through the cached merged spec) and every key once on its own "
             "against the section's own declaration (independent merge).  store: 2-4 named sections that redeclare each "
             "other's keys, 2-5 validations in a row against ONE validator with varying base orders, 25% repeats (cache "
             "hits), 4% unknown section names; non-trivial = >= 2 steps with a base; distinct by case hash.  "
             "item (round 3): also color / color_or_token / kivycolor (named colours in three letter cases, 6-8 digit hex, 3-5 "
             "and 9 character strings over [0-9a-fA-Fg#, ] at every position, r,g,b lists with 1-5 components in and out of "
             "0..255, placeholders), int_from_hex (0x prefixes, underscores, signs), dict(k:v), subconfig(section[,bases]) of "
             "real sections with known / misspelled keys, and comma lists with TWO OR MORE {conditions} for list and "
             "event_handler entries.  deep: 3 of 5 cases take the NEXT of the 39 sections of config_spec.yaml that have "
             "subconfig(..) entries (single / list / dict of sub-configs), nested list-of-dict sub-sections or dict(k:v), "
             "with MPF's base spec; 2 of 5 a synthetic 5-section store nesting to depth 4 (incl. dict|int:subconfig, "
             "subconfig with bases, __allow_others__); the source is built VALID for every entry it contains (so that only "
             "the planted perturbation decides) and in 45% of the cases an unknown or misspelled key (dropped / swapped / "
             "appended character, other letter case) is planted in a sub-config at depth >= 1 chosen at random (depth 2-4 "
             "frequent), else a top-level unknown key, a wrong-typed value at depth, or nothing; non-trivial = planted key or "
             "accepted.  player: variable_player / score_queue_player / event_player entries (dict, list and express-string "
             "forms) whose keys are name{condition}|number with ONE character of the full printable-ASCII alphabet put at "
             "ANY position of a legal name (50%), conditions that parse / do not parse / contain braces, |number and "
             ":number suffixes, 8% fully random printable strings.")
RULE = RULE_BASE
TRUSTED_BASE = [
    "Coq 8.16.1 kernel (coqc), vm_compute for witnesses and for evaluating the model in the correspondence run; no native_compute",
    "axioms: none (every Print Assumptions is 'Closed under the global context'); stdlib QArith/Qround/Qabs/Lqa (lra, nra), Lia",
    "translator harness/props/c12.py translate(): Python ast of Util.string_to_ms/string_to_secs -> coq/C12/gen/Time.v "
    "(supported subset: endswith tests, [:-k] slices, int/float/round calls, * positive int constants; fail-closed), "
    "NAMED_RGB_COLORS of rgb_color.py -> coq/C12/gen/Colors.v (a dict(name=(r, g, b), ...) literal of int constants; "
    "fail-closed), and the check of ConfigValidator.validator_list against the model's dispatch (all 36 validator names)",
    "hand-written model coq/C12/Model.v + Ext.v + Player.v + Base.v tied to the working tree by correspondence: the real "
    "ConfigValidator and the real variable_player / score_queue_player / event_player of a booted machine "
    "(harness/rig.py) and the model run on the same generated inputs (items, flat sections, histories, NESTED sections "
    "through subconfig(..) and nested sub-sections, player entries), outcomes compared incl. error numbers, dict order, "
    "template class and text; the spec store handed to the recursive model is read from the validator under test in the "
    "worker (closure of the sections reachable through subconfig references)",
    "CPython: float()/int()/int(x, 16)/round()/repr(float)/str.upper/lower/strip, int/int true division and binary64 "
    "arithmetic are the semantics Base.v's rnd53 / parse_float / parse_int and Ext.v's parse_int16 / fnum(z/255) model; "
    "validated on every run, repr(float) supplied as data; that parse_float reads a plain decimal text as the exact "
    "decimal rational is proved (DecText.v)",
    "Python's expression grammar is abstract in the model: which texts ast.parse(text, mode='eval') accepts is computed by "
    "the harness with the ast module (not by MPF) and handed to the model as data (section '#expr'), like the device names "
    "of the booted rig machine (section -> names, checked at worker start)",
    "the Python oracle (py_has_type incl. colours / int_from_hex / dict(k:v), deep_walk = the property's predicate at every "
    "nesting depth on an independent merge 'own declarations first' of the spec the code used, expected_event_elements = "
    "independent splitter for comma lists of conditional events, the name grammar [0-9a-zA-Z_-]+ for player entries, per-key "
    "re-validation through ConfigValidator.validate_config_item, expected_ms with fractions.Fraction) and MPF's YAML/spec "
    "loader for config_spec.yaml",
]
ASSUMPTIONS = [
    "ASCII strings; |numbers| in [2^-1000, 2^1000) or 0; numeric text <= 100 digits, |exponent| <= 180 (others are oracle-only)",
    "spec entries are well formed (three fields; range bounds parse); gain with a dB text, str() of a list/dict, `set` items "
    "that are not strings, dict(..) inside dict(k:v), a comma STRING handed to list|subconfig(..) and nested sub-sections "
    "whose source is not a list are outside the model (oracle-only, counted).  The flat `section` / `store` suites still "
    "run the first-layer model (entries with the round-3 validators are not fed there; they are fed in `item` and `deep`)",
    "a color tuple (r, g, b) is written as a 3-element list in the model's observable (the oracle checks that it is a tuple)",
    "nested_config_sound assumes that every dict of the spec store has unique keys (root_nodup: Python dicts do) and is "
    "stated for add_missing_keys=True (the default, and what every recursive call uses); fuel bounds the nesting depth "
    "(deep_fuel = 12 in the correspondence run; real specs nest to depth 4)",
    "player entries: keys are printable ASCII without newline; the VALUES of variable_player / score_queue_player / "
    "event_player entries are always valid in the generated cases (their validation is the section validation above) and "
    "are not part of the player model; allow_brackets is never passed by any caller in /repo (modelled, generated false)",
    "time theorems: the fractional / whole-number theorems over arbitrary text keep the hypothesis that float() reads the "
    "text before the suffix as the nearest double of x; time_string_value_times_unit has no such hypothesis but is for "
    "plain decimal texts d+.d* (<= 400 digits, no sign/exponent/underscore/blanks), value 0 or >= 1e-9, value*unit < 2^49",
    "the fix commits d658b1b (time strings) and 5a156f6 (range NaN) are in the tree under test; pow2, gain, kivycolor and "
    "color are modelled as they are (known findings pow2-returns-unconverted, gain-nan-unclamped, kivycolor-list-unchecked, "
    "color-range-unchecked)",
    "the per-key oracle (declared-spec-not-applied) is metamorphic: it compares validate_config with validate_config_item of "
    "the same implementation on the independently merged declaration, so it detects a wrong merge / cache / section loop, "
    "not a wrong scalar validator (those are the typedness oracle's and the correspondence's job)",
]
LEVEL_TEXT = ("Machine-checked proof (Coq) that, in an executable model of ConfigValidator (all 36 validators: scalars, templates, "
              "gain, colours with the translated colour table, int_from_hex, dict(k:v), subconfig; ranges, enums, devices, "
              "tokens, list/set/dict/event_handler normalisation incl. the {condition} event regex, defaults, unknown-key "
              "check, section loop, spec merge and cache, and the RECURSIVE validation of sub-configs and nested "
              "sub-sections), every accepted value has its declared type and range, accepted sections are complete, unknown "
              "keys are rejected and absent from every accepted (sub-)config AT EVERY NESTING DEPTH, provided keys are kept, "
              "the merged spec gives every key the section's OWN declaration, over ANY history of validations the spec is "
              "never modified and every answer equals a validation against a fresh merge; that a config-player entry is "
              "accepted only if every character of every entry name is a letter, digit, dash or underscore; and that the "
              "time-string arithmetic TRANSLATED from Util.string_to_ms on every run yields value times unit: exactly when "
              "that is a whole number of ms, within 3/4 ms otherwise, proved down to the decimal text (binary64 rounding "
              "modelled on exact rationals with a proved 2^-53 relative error bound).  The model is tied to the working tree "
              "by running both on the same generated inputs on every run; a direct oracle checks the property's predicate on "
              "the implementation's outputs for every section of the real spec on every run (coverage reported in RULE), at "
              "every nesting depth for the 39 sections with nested specs.")
LEVEL_NOTE = ("Trusted: Coq kernel + vm_compute; no axioms. Time functions and the colour table translated (fail-closed), "
              "validators, recursion and player-name parsing hand-modelled and validated differentially incl. error numbers. "
              "float()/int() text parsing and binary64 rounding are modelled in Gallina and validated against CPython on every "
              "run; Python's expression grammar (templates, conditions) and the device registry are abstract data supplied by "
              "the harness. dB gains, str() of containers and non-ASCII strings are covered by the oracle only. Four known "
              "findings (pow2-returns-unconverted, gain-nan-unclamped, kivycolor-list-unchecked, color-range-unchecked) are "
              "modelled faithfully with _refuted theorems and full-strength theorems under the guard excluding exactly the "
              "recorded class.")
TECHNIQUE = ("Coq proof over translated (time strings, colour table) + hand-written (validators, merge, cache, histories, recursive "
             "sub-config validation with fuel, player entry names) executable model, differential correspondence (vm_compute) "
             "against the real ConfigValidator and config players of a booted machine, direct typedness/completeness/"
             "unknown-key-at-every-depth/own-declaration/spec-immutability/list-element/entry-name oracle with an independent "
             "spec merge")
