"""C12 — Config validation returns well-typed complete configs or rejects.

(T) Util.string_to_ms / string_to_secs are TRANSLATED from the Python source (ast) into coq/C12/gen/Time.v on
    every run (suffix chain order, slice lengths, multipliers, int/float/round calls), fail-closed.
(H) The scalar validators, item types (single/list/set/dict/event_handler), defaults, unknown-key rejection and
    the section loop of ConfigValidator are a hand model (coq/C12/Model.v) tied by correspondence against the real
    ConfigValidator of a booted machine.
"""
import ast
import copy
import json
import math
import os
import re
from fractions import Fraction

from vlib import Suite, zlist, zlit, coqlist, blit

ID = "C12"
READY = True
DESIGN_REF = "DESIGN.md section 3, C12"

# ==================================================================================================
# (T) translator: mpf/core/utility_functions.py  ->  coq/C12/gen/Time.v


class Untranslatable(Exception):
    pass


def _find_method(tree, cls, name):
    for node in tree.body:
        if isinstance(node, ast.ClassDef) and node.name == cls:
            for f in node.body:
                if isinstance(f, ast.FunctionDef) and f.name == name:
                    return f
    raise Untranslatable("translate:utility_functions.py:%s.%s not found" % (cls, name))


def _body_wo_doc(f):
    b = list(f.body)
    if b and isinstance(b[0], ast.Expr) and isinstance(getattr(b[0], "value", None), ast.Constant) \
            and isinstance(b[0].value.value, str):
        b = b[1:]
    return b


def _d(node):
    return ast.dump(node, annotate_fields=True, include_attributes=False)


def _expect(node, src, what):
    want = ast.parse(src).body[0]
    if _d(node) != _d(want):
        raise Untranslatable("translate:utility_functions.py:%s: expected `%s`, found `%s`" %
                             (what, src, ast.unparse(node)))


def _coq_str(s):
    return zlist([ord(c) for c in s])


def _tr_expr(e, var):
    """Python expression over the string variable -> (kind, gallina).  kinds: str, int, float."""
    if isinstance(e, ast.Name) and e.id == var:
        return "str", "s"
    if isinstance(e, ast.Subscript) and isinstance(e.value, ast.Name) and e.value.id == var \
            and isinstance(e.slice, ast.Slice) and e.slice.lower is None and e.slice.step is None \
            and isinstance(e.slice.upper, ast.UnaryOp) and isinstance(e.slice.upper.op, ast.USub) \
            and isinstance(e.slice.upper.operand, ast.Constant) and type(e.slice.upper.operand.value) is int \
            and e.slice.upper.operand.value >= 1:
        return "str", "(drop_last %d s)" % e.slice.upper.operand.value
    if isinstance(e, ast.Call) and isinstance(e.func, ast.Name) and len(e.args) == 1 and not e.keywords:
        k, g = _tr_expr(e.args[0], var)
        fn = e.func.id
        if fn == "int":
            return "int", {"str": "(e_int_of_str %s)", "float": "(r_int %s)", "int": "(r_id %s)"}[k] % g
        if fn == "float" and k == "str":
            return "float", "(e_float_of_str %s)" % g
        if fn == "round" and k == "float":
            return "int", "(r_round %s)" % g
    if isinstance(e, ast.BinOp) and isinstance(e.op, ast.Mult) and isinstance(e.right, ast.Constant) \
            and type(e.right.value) is int and e.right.value > 0:
        k, g = _tr_expr(e.left, var)
        if k == "float":
            return "float", "(r_fmul %s %d)" % (g, e.right.value)
    raise Untranslatable("translate:utility_functions.py:string_to_ms: unsupported expression `%s`" % ast.unparse(e))


def _tr_cond(c, var):
    if isinstance(c, ast.BoolOp) and isinstance(c.op, ast.Or):
        return "(" + " || ".join(_tr_cond(x, var) for x in c.values) + ")"
    if isinstance(c, ast.Call) and isinstance(c.func, ast.Attribute) and c.func.attr == "endswith" \
            and isinstance(c.func.value, ast.Name) and c.func.value.id == var and len(c.args) == 1 \
            and not c.keywords and isinstance(c.args[0], ast.Constant) and isinstance(c.args[0].value, str) \
            and c.args[0].value and all(ord(ch) < 128 for ch in c.args[0].value):
        return "(ends_with s %s)" % _coq_str(c.args[0].value)
    raise Untranslatable("translate:utility_functions.py:string_to_ms: unsupported condition `%s`" % ast.unparse(c))


def translate_time(src):
    tree = ast.parse(src)
    f = _find_method(tree, "Util", "string_to_ms")
    if [a.arg for a in f.args.args] != ["time_string"]:
        raise Untranslatable("translate:utility_functions.py:string_to_ms: signature changed")
    body = _body_wo_doc(f)
    if len(body) < 4:
        raise Untranslatable("translate:utility_functions.py:string_to_ms: body too short")
    _expect(body[0], "if time_string is None:\n    return 0", "string_to_ms[None]")
    _expect(body[1], "if isinstance(time_string, (int, float)):\n    return int(time_string)", "string_to_ms[number]")
    _expect(body[2], "time_string = str(time_string).upper()", "string_to_ms[upper]")
    lines = []
    for st in body[3:-1]:
        if not (isinstance(st, ast.If) and not st.orelse and len(st.body) == 1 and isinstance(st.body[0], ast.Return)
                and st.body[0].value is not None):
            raise Untranslatable("translate:utility_functions.py:string_to_ms: unsupported statement `%s`" %
                                 ast.unparse(st))
        k, g = _tr_expr(st.body[0].value, "time_string")
        if k != "int":
            raise Untranslatable("translate:utility_functions.py:string_to_ms: branch does not return an int: `%s`" %
                                 ast.unparse(st))
        lines.append("  if %s then %s else" % (_tr_cond(st.test, "time_string"), g))
    last = body[-1]
    if not (isinstance(last, ast.Return) and last.value is not None):
        raise Untranslatable("translate:utility_functions.py:string_to_ms: last statement is not a return")
    k, g = _tr_expr(last.value, "time_string")
    if k != "int":
        raise Untranslatable("translate:utility_functions.py:string_to_ms: fall-through does not return an int")
    lines.append("  %s." % g)

    f2 = _find_method(tree, "Util", "string_to_secs")
    b2 = _body_wo_doc(f2)
    if len(b2) != 3:
        raise Untranslatable("translate:utility_functions.py:string_to_secs: shape changed")
    _expect(b2[0], "time_string = str(time_string)", "string_to_secs[str]")
    _expect(b2[1], "if not any(c.isalpha() for c in time_string):\n    time_string = ''.join((time_string, 's'))",
            "string_to_secs[append]")
    _expect(b2[2], "return Util.string_to_ms(time_string) / 1000.0", "string_to_secs[div]")

    out = ["(* GENERATED on every run by harness/props/c12.py translate() from mpf/core/utility_functions.py",
           "   (Util.string_to_ms, Util.string_to_secs).  Do not edit. *)",
           "From Common Require Import Prelude.",
           "From C12 Require Import Base.",
           "Open Scope Z_scope.",
           "",
           "(* the chain of suffix tests after `time_string = str(time_string).upper()` *)",
           "Definition string_to_ms_chain (s : str) : result Z :="] + lines + [
           "",
           "Definition string_to_ms (v : yv) : result Z :=",
           "  match v with",
           "  | YNone => Ok 0                                  (* if time_string is None: return 0 *)",
           "  | YBool b => Ok (if b then 1 else 0)             (* isinstance(x, (int, float)): int(x) *)",
           "  | YInt z => Ok z",
           "  | YFloat f _ => py_int_of_fl f",
           "  | other => match py_str other with",
           "             | Some s => string_to_ms_chain (upper s)",
           "             | None => Err EValue                  (* str(list/dict) ends with ] or }: int() fails *)",
           "             end",
           "  end.",
           "",
           "Definition string_to_secs (v : yv) : result fl :=",
           "  match py_str v with",
           "  | None => Err EUnsup",
           "  | Some s =>",
           "      let s' := if existsb is_alpha s then s else s ++ [115] in",
           "      bindR (string_to_ms (YStr s')) (fun ms => Ok (fdiv_pos (fl_of_Z ms) 1000))",
           "  end.",
           ""]
    return "\n".join(out)


# the validator table: name -> method, checked against the source so that the hand model's dispatch is current
EXPECTED_VALIDATORS = {
    "str": "_validate_type_str", "event_posted": "_validate_type_str", "event_handler": "_validate_type_str",
    "lstr": "_validate_type_lstr", "float": "_validate_type_float",
    "float_or_token": "or_token:_validate_type_float", "int": "_validate_type_int",
    "int_or_token": "or_token:_validate_type_int", "num": "_validate_type_num",
    "num_or_token": "or_token:_validate_type_num", "bool": "_validate_type_bool",
    "bool_or_token": "or_token:_validate_type_bool", "boolean": "_validate_type_bool", "ms": "_validate_type_ms",
    "ms_or_token": "or_token:_validate_type_ms", "secs": "_validate_type_secs",
    "secs_or_token": "or_token:_validate_type_secs", "list": "_validate_type_list", "dict": "_validate_type_dict",
    "bool_int": "_validate_type_bool_int", "pow2": "_validate_type_pow2", "enum": "_validate_type_enum",
    "machine": "_validate_type_machine",
}


def check_validator_table(src):
    tree = ast.parse(src)
    init = _find_method(tree, "ConfigValidator", "__init__")
    table = None
    for st in init.body:
        if isinstance(st, ast.Assign) and len(st.targets) == 1 and isinstance(st.targets[0], ast.Attribute) \
                and st.targets[0].attr == "validator_list" and isinstance(st.value, ast.Dict):
            table = {}
            for k, v in zip(st.value.keys, st.value.values):
                if not isinstance(k, ast.Constant):
                    raise Untranslatable("translate:config_validator.py:validator_list: non-constant key")
                if isinstance(v, ast.Attribute):
                    table[k.value] = v.attr
                elif isinstance(v, ast.Call) and isinstance(v.func, ast.Attribute) and \
                        v.func.attr == "_validate_type_or_token" and len(v.args) == 1 and \
                        isinstance(v.args[0], ast.Attribute):
                    table[k.value] = "or_token:" + v.args[0].attr
                else:
                    table[k.value] = "?" + ast.unparse(v)
    if table is None:
        raise Untranslatable("translate:config_validator.py:validator_list not found")
    for k, v in EXPECTED_VALIDATORS.items():
        if table.get(k) != v:
            raise Untranslatable("translate:config_validator.py:validator_list[%r] is %r, the model dispatches to %r" %
                                 (k, table.get(k), v))
    return sorted(table)


def translate(repo, gendir):
    os.makedirs(gendir, exist_ok=True)
    path = os.path.join(gendir, "Time.v")
    try:
        src = open(os.path.join(repo, "mpf/core/utility_functions.py")).read()
        text = translate_time(src)
        names = check_validator_table(open(os.path.join(repo, "mpf/core/config_validator.py")).read())
        text += "\n(* validator names of ConfigValidator.validator_list (config_validator.py), for reference *)\n"
        text += "Definition all_validator_names : list str := %s.\n" % coqlist(_coq_str(n) for n in names)
    except Exception:
        # fail closed: no stale generated model may survive a failed translation
        if os.path.exists(path):
            os.unlink(path)
        raise
    old = open(path).read() if os.path.exists(path) else None
    if old != text:
        with open(path, "w") as f:
            f.write(text)
